"""How a file reaches the library.

Wherever the library takes a file it takes a path string *or an open text file* (System, SystemGro, MoleculeTop,
Molecule.from_files, read_topology, open_coordinate_file, GroFile, ItpFile).  What a property promises about a file's
content does not depend on that, nor on what the process does around the call: the working directory may change after
a relative name was opened, the handle may have been opened with another newline translation.  `carried` hands out
the same file in one of these ways and puts the process back as it was afterwards.
"""
import contextlib
import os
import shutil

KINDS = ('path', 'handle', 'handle-newline-untranslated', 'handle-relative-then-chdir', 'relative-path')
_turn = [0]


def next_kind(ctx, allowed=KINDS):
    """Kinds in rotation (every kind is reached whatever the seed)."""
    _turn[0] += 1
    kind = allowed[_turn[0] % len(allowed)]
    ctx.hit('carrier:' + kind)
    return kind


@contextlib.contextmanager
def carried(path, kind, decoy=None):
    """Yields what to give to the library for the file at `path` (absolute).

    'path'                        the absolute path string
    'relative-path'               a name relative to the working directory (which is the file's directory for the
                                  duration of the block)
    'handle'                      open(path)
    'handle-newline-untranslated' open(path, newline=''): line endings reach the reader as they are in the file
    'handle-relative-then-chdir'  the file opened by its bare name from its own directory, after which the working
                                  directory moves to another directory that holds `decoy` (if given) under the same bare
                                  name: the handle is still open on the original file
    """
    path = os.path.abspath(path)
    here = os.getcwd()
    fh = None
    elsewhere = None
    try:
        if kind == 'path':
            yield path
        elif kind == 'relative-path':
            os.chdir(os.path.dirname(path))
            yield os.path.basename(path)
        elif kind == 'handle':
            fh = open(path)
            yield fh
        elif kind == 'handle-newline-untranslated':
            fh = open(path, newline='')
            yield fh
        elif kind == 'handle-relative-then-chdir':
            os.chdir(os.path.dirname(path))
            fh = open(os.path.basename(path))
            elsewhere = path + '.elsewhere'
            os.makedirs(elsewhere, exist_ok=True)
            if decoy is not None:
                shutil.copyfile(decoy, os.path.join(elsewhere, os.path.basename(path)))
            os.chdir(elsewhere)
            yield fh
        else:
            raise ValueError(kind)
    finally:
        os.chdir(here)
        if fh is not None and not fh.closed:
            fh.close()
        if elsewhere is not None:
            shutil.rmtree(elsewhere, ignore_errors=True)
