"""
Coverage observer: which executable lines of the anchored functions actually
ran during a check (sys.monitoring LINE events, DISABLE after the first hit,
so the cost is negligible).  The evidence reports lines_hit/lines_total per
function, measured from code.co_lines() so it follows the code when it moves.
"""
import sys

TOOL = 4  # a free tool id (0-5 are available to applications)


class Coverage:
    def __init__(self):
        self.codes = {}      # code -> label
        self.hit = {}        # label -> set(lines)
        self.active = False
        self.missing = []

    def watch(self, func, label=None):
        code = getattr(func, '__code__', None)
        if code is None and hasattr(func, '__func__'):
            code = func.__func__.__code__
        if code is None:
            return
        label = label or f'{func.__module__}.{func.__qualname__}'
        self.codes[code] = label
        self.hit.setdefault(label, set())
        if self.active:
            sys.monitoring.set_local_events(TOOL, code, sys.monitoring.events.LINE)

    def watch_attr(self, owner, name, label=None):
        """Watch owner.<name> if it exists.  Private helpers may be renamed or removed by a refactoring: coverage of a
        function that is gone is simply not reported (the deciding monitors do not depend on it)."""
        func = owner.__dict__.get(name) if hasattr(owner, '__dict__') else getattr(owner, name, None)
        if func is None:
            self.missing.append(label or f'{getattr(owner, "__name__", owner)}.{name}')
            return
        self.watch(func, label or f'{getattr(owner, "__name__", owner)}.{name}')

    def start(self):
        mon = sys.monitoring
        try:
            mon.use_tool_id(TOOL, 'gmv-cover')
        except ValueError:
            return False
        mon.register_callback(TOOL, mon.events.LINE, self._line)
        for code in self.codes:
            mon.set_local_events(TOOL, code, mon.events.LINE)
        self.active = True
        return True

    def _line(self, code, line):
        label = self.codes.get(code)
        if label is not None:
            self.hit[label].add(line)
        return sys.monitoring.DISABLE

    def stop(self):
        if not self.active:
            return
        mon = sys.monitoring
        for code in self.codes:
            mon.set_local_events(TOOL, code, 0)
        mon.register_callback(TOOL, mon.events.LINE, None)
        mon.free_tool_id(TOOL)
        self.active = False

    def report(self):
        out = {}
        for code, label in self.codes.items():
            first = code.co_firstlineno
            lines = sorted({l for _, _, l in code.co_lines() if l is not None and l != first})
            hit = sorted(self.hit[label] & set(lines))
            out[label] = {'lines_total': len(lines), 'lines_hit': len(hit),
                          'missed': [l for l in lines if l not in hit][:20]}
        return out
