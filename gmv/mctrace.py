"""
Trace recorder and offline checker for the Monte-Carlo search (C09).

Events are recorded at the boundary of the helpers the loop resolves through
module-level names at call time (gaddlemaps._backend.Chi2Calculator,
accept_metropolis, move_mol_atom, rotation_matrix) and of the numpy random
functions it draws from.  Arrays are copied when recorded.  check_trace()
replays the event list against the sequential specification of the property.
"""
import contextlib

import numpy as np

from . import bus


class TraceCut(BaseException):
    """Raised by the recorder (never by the library) to end a run whose trace reached the recorder's step cap: a search
    that keeps finding new lowest measures (by rounding-level amounts, on problems whose measure hardly depends on the
    enabled moves) legitimately never sits out its budget; what was recorded up to the cap is still checked."""


class RanPastBudget(Exception):
    """Raised from the acceptance wrapper when, by the specification, the search
    should already have stopped (keeps a broken loop from running forever)."""


class Tracer:
    def __init__(self, n_steps=None, slack=3, max_steps=None):
        self.events = []
        self._in_accept = None
        self.n_steps = n_steps
        self.slack = slack
        self.max_steps = max_steps
        self._steps = 0
        self._e_min = None
        self._counter = 0

    # -- wrappers ---------------------------------------------------------
    def _chi2(self, Real):
        tracer = self

        class Chi2Calculator:          # noqa
            __gmv_original__ = getattr(Real, '__gmv_original__', Real)

            def __init__(self, *args, **kwargs):
                mol1, mol2, restrictions = bus.seen(('mol1', 'mol2', 'restrictions'), args, kwargs)
                self._gmv_real = Real(*args, **kwargs)
                tracer.events.append(('chi2-built', np.array(mol1, float, copy=True), np.array(mol2, float, copy=True),
                                      None if restrictions is None else [tuple(int(x) for x in r) for r in restrictions]))

            def __call__(self, *args, **kwargs):
                mol2, = bus.seen(('mol2',), args, kwargs)
                v = self._gmv_real(*args, **kwargs)
                tracer.events.append(('chi2', np.array(mol2, float, copy=True), v))
                if tracer._e_min is None:
                    tracer._e_min = v
                return v

            def __getattr__(self, name):
                return getattr(self.__dict__['_gmv_real'], name)
        return Chi2Calculator

    def _accept(self, real):
        def accept_metropolis(*args, **kwargs):
            energy_0, energy_1, acceptance = bus.seen(('energy_0', 'energy_1', 'acceptance'), args, kwargs, {'acceptance': 0.01})
            self._in_accept = []
            try:
                d = real(*args, **kwargs)
            finally:
                draws, self._in_accept = self._in_accept, None
            self.events.append(('accept', energy_0, energy_1, bool(d), draws, acceptance))
            # online copy of the specification's counter
            if d and self._e_min is not None and energy_1 < self._e_min:
                self._e_min = energy_1
                self._counter = 0
            else:
                self._counter += 1
            if self.n_steps is not None and self._counter > self.n_steps + self.slack:
                raise RanPastBudget(f'{self._counter} consecutive non-improving steps, budget {self.n_steps}')
            self._steps += 1
            if self.max_steps is not None and self._steps >= self.max_steps and self._counter < (self.n_steps or 0):
                raise TraceCut(f'{self._steps} steps recorded')
            return d
        return accept_metropolis

    def _move(self, real):
        def move_mol_atom(*args, **kwargs):
            atoms_pos, sigma_scale = bus.seen(('atoms_pos', 'bonds_info', 'atom_index', 'displ', 'sigma_scale'), args, kwargs, {'sigma_scale': 0.5})[::4]
            before = np.array(atoms_pos, float, copy=True)
            out = real(*args, **kwargs)
            self.events.append(('move', before, np.array(out, float, copy=True), sigma_scale))
            return out
        return move_mol_atom

    def _rot(self, real):
        def rotation_matrix(*args, **kwargs):
            axis, theta = bus.seen(('axis', 'theta'), args, kwargs)
            R = real(*args, **kwargs)
            self.events.append(('rot', np.array(axis, float, copy=True), float(theta), np.array(R, float, copy=True)))
            return R
        return rotation_matrix

    @contextlib.contextmanager
    def recording(self):
        """Install the wrappers for the duration of one run."""
        real_rand = np.random.rand

        def rand(*args):
            v = real_rand(*args)
            if self._in_accept is not None and not args:
                self._in_accept.append(float(v))
            return v
        with contextlib.ExitStack() as st:
            st.enter_context(bus.installed('Chi2Calculator', self._chi2))
            st.enter_context(bus.installed('accept_metropolis', self._accept))
            st.enter_context(bus.installed('move_mol_atom', self._move))
            st.enter_context(bus.installed('rotation_matrix', self._rot))
            st.enter_context(bus.patched(np.random, 'rand', rand))
            yield self


# ---------------------------------------------------------------------------
# the specification

def classify_proposal(held, prop, move_events, tol=1e-9):
    """Which admissible proposal types does `prop` realise w.r.t. `held`?"""
    kinds = set()
    if held.shape != prop.shape:
        return kinds
    # tolerances relative to the size of the coordinates (the workload also runs in other length units)
    scale = max(float(np.abs(held).max()), float(np.abs(prop).max()), 1e-300)
    d = prop - held
    if np.abs(d - d[0]).max() <= tol * scale:
        kinds.add(0)
    c0, c1 = held.mean(axis=0), prop.mean(axis=0)
    if np.abs(c0 - c1).max() <= tol * scale:
        a, b = held - c0, prop - c1
        g0, g1 = a @ a.T, b @ b.T           # Gram matrices: equal iff b = a Q with Q orthogonal
        if np.abs(g0 - g1).max() <= tol * scale * max(scale, float(np.abs(a).max())):
            proper = True
            if len(held) >= 3:
                # orientation of the best-fit orthogonal map
                H = a.T @ b
                if np.linalg.matrix_rank(H, tol=1e-9 * max(float(np.abs(H).max()), 1e-300)) == 3 and np.linalg.det(H) < 0:
                    proper = False
            if proper:
                kinds.add(1)
    for (_, before, out, _) in move_events:
        if np.array_equal(before, held) and np.array_equal(out, prop, equal_nan=True):
            kinds.add(2)
    return kinds


def check_trace(events, initial, n_steps, sim_type, returned, cut=False):
    """Replay the events of one run.  Returns (problems, stats); problems is a
    list of (mechanism, message)."""
    problems = []
    stats = {'steps': 0, 'accepted': 0, 'worse': 0, 'worse_accepted': 0, 'improved': 0, 'types': {0: 0, 1: 0, 2: 0},
             'draw_observed': 0, 'p_sum': 0.0, 'pq_sum': 0.0}
    chi2_events = [e for e in events if e[0] == 'chi2']
    if not chi2_events:
        return [('trace-empty', 'no chi2 evaluation was observed')], stats
    sim_type = tuple(int(t) for t in sim_type)
    # event 0: the measure of the initial configuration
    first = chi2_events[0]
    held = np.array(initial, float)
    if not np.array_equal(first[1], held):
        problems.append(('initial-measure-not-of-initial-configuration',
                         'the first overlap measure was not computed on the initial configuration'))
    e_held = first[2]
    e_min = e_held
    counter = 0
    # walk: between two accept events there is exactly one proposal (its chi2 evaluation)
    idx = events.index(first) + 1
    pending_chi2, pending_moves = [], []
    stopped_early = False
    for ev in events[idx:]:
        if ev[0] == 'chi2':
            pending_chi2.append(ev)
        elif ev[0] == 'move':
            pending_moves.append(ev)
        elif ev[0] == 'accept':
            _, e0, e1, decision, draws, acceptance = ev
            stats['steps'] += 1
            if counter >= n_steps and not stopped_early:
                problems.append(('ran-past-the-step-budget', f'step {stats["steps"]}: {counter} consecutive non-improving steps already elapsed (budget {n_steps})'))
                stopped_early = True
            if len(pending_chi2) != 1:
                problems.append(('proposal-evaluations-per-step', f'step {stats["steps"]}: {len(pending_chi2)} overlap evaluations between two decisions'))
                if not pending_chi2:
                    pending_moves = []
                    continue
            prop, e_prop = pending_chi2[-1][1], pending_chi2[-1][2]
            # judged against the held configuration's measure
            if not (e0 == e_held):
                problems.append(('judged-against-wrong-measure',
                                 f'step {stats["steps"]}: acceptance test got E_current={e0!r}, the held configuration has {e_held!r} (lowest so far {e_min!r})'))
            if not (e1 == e_prop) and not (np.isnan(e1) and np.isnan(e_prop)):
                problems.append(('proposal-measure-mismatch', f'step {stats["steps"]}: acceptance test got E_new={e1!r}, the proposal evaluated to {e_prop!r}'))
            # proposal type
            kinds = classify_proposal(held, prop, pending_moves)
            if not kinds:
                how = 'not-derived-from-held-configuration'
                problems.append((f'proposal-{how}', f'step {stats["steps"]}: the proposal is neither a translation, a rotation about the centroid nor a recorded single-atom move of the held configuration'))
            elif not (kinds & set(sim_type)):
                problems.append(('proposal-of-disabled-type', f'step {stats["steps"]}: proposal types {sorted(kinds)} but enabled {sim_type}'))
            else:
                for k in kinds & set(sim_type):
                    stats['types'][k] += 1
            # Metropolis rule
            if not np.isfinite(e1):
                # a proposal without a finite measure (a single-atom move with no defined direction) is not "equal or
                # lower": it can only be taken through the probabilistic branch, whose probability is not a number
                stats['nonfinite'] = stats.get('nonfinite', 0) + 1
                if decision:
                    problems.append(('non-finite-proposal-accepted', f'step {stats["steps"]}: a proposal with measure {e1!r} was accepted (held {e0!r}, draws {draws})'))
            elif e1 <= e0:
                if not decision:
                    problems.append(('equal-or-better-proposal-rejected', f'step {stats["steps"]}: E_new={e1!r} <= E_held={e0!r} was rejected'))
            else:
                stats['worse'] += 1
                p = 0.01 * float(e0) / float(e1)
                stats['p_sum'] += p
                stats['pq_sum'] += p * (1 - p)
                if decision:
                    stats['worse_accepted'] += 1
                if len(draws) == 1:
                    stats['draw_observed'] += 1
                    if decision != (draws[0] <= p):
                        problems.append(('metropolis-rule-violated', f'step {stats["steps"]}: worse proposal (E {e0!r} -> {e1!r}, p={p:.6g}) decided {decision} with draw {draws[0]!r}'))
            # bookkeeping
            if decision:
                stats['accepted'] += 1
                held, e_held = prop, e_prop
                if e_prop < e_min:
                    e_min = e_prop
                    counter = 0
                    stats['improved'] += 1
                else:
                    counter += 1
            else:
                counter += 1
            pending_chi2, pending_moves = [], []
    if cut:
        # the recorder ended the run itself: the stopping rule and the returned configuration were not observed
        return problems, stats
    if pending_chi2:
        problems.append(('evaluation-without-decision', f'{len(pending_chi2)} overlap evaluations after the last decision'))
    if counter != n_steps:
        problems.append(('stopped-at-wrong-step', f'the search stopped with {counter} consecutive non-improving steps, budget {n_steps} (steps {stats["steps"]})'))
    if returned is None or not np.array_equal(np.asarray(returned, float), held):
        which = 'unknown'
        if returned is not None:
            r = np.asarray(returned, float)
            which = 'a configuration never held'
            for ev in events:
                if ev[0] == 'chi2' and np.array_equal(ev[1], r):
                    which = f'an evaluated configuration with measure {ev[2]!r} (held: {e_held!r}, lowest: {e_min!r})'
        problems.append(('returned-not-last-accepted', f'the returned array is not the last accepted configuration but {which}'))
    return problems, stats
