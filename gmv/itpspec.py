"""
Generator of .itp topology texts together with their ground truth (name,
atoms in order, bond set in 0-based positions).  Raw text is produced line by
line so that hostile layouts can be expressed.
"""
import numpy as np

from . import gen


def _sp(rng, decorate):
    if not decorate:
        return '  '
    return [' ', '  ', '\t', '     ', ' \t'][int(rng.integers(0, 5))]


NOISE = ['; a comment line\n', '\n', '#ifdef FLEXIBLE\n', '#endif\n', '#include "ff.itp"\n', ';\n', '  \t \n',
         ';commented 1 2 3\n', '#define X 1\n', ' ; indented comment\n', '#else\n', '#ifndef POSRES\n', '#undef X\n',
         '#if 1\n', '#elif 0\n',
         # comments that look like section headers, comments with brackets, directives with a trailing comment
         '   ; a ;\n', ';#include "x.itp"\n', ';#ifdef X\n', ';[ angles ]\n', '; [ position_restraints ]\n', '; --- [ exclusions ] ---\n', '; see ref. [1]\n',
         '#ifdef FLEXIBLE ; softer terms\n', '#define gb_1 0.1 1.57e7 ; H-OA\n', '#endif ; FLEXIBLE\n']


def _noise(rng, decorate, out, p=0.25):
    if decorate and rng.random() < p:
        out.append(NOISE[int(rng.integers(0, len(NOISE)))])


def gen_top(rng, n=None, kind=None, decorate=None, repeated=False, multi_res=None, name=None,
            trailing=('plain',), numbering=None, sections_before_atoms=False):
    """Returns (text, truth).  truth = dict(name, atoms=[(name, resname, resid)], bonds=set((i,j) i<j),
    n, kind, classes=set())."""
    classes = set()
    if n is None:
        n = int(rng.integers(1, 40))
    if kind is None:
        kind = ['tree', 'forest', 'cyclic', 'chain', 'star', 'ring', 'disconnected-cyclic'][int(rng.integers(0, 7))]
    if kind == 'disconnected-cyclic' and n < 5:
        kind = 'tree'
    if n == 1:
        edges, kind = [], 'single'
    elif kind == 'disconnected-cyclic':
        # several components, at least one with a ring; bond counts around n-1 are generated on purpose
        labels = rng.permutation(n)
        k = int(rng.integers(3, max(4, n - 1)))
        k = min(k, n - 2)
        parts = [labels[:k], labels[k:]]
        if len(parts[1]) >= 4 and rng.random() < 0.4:
            c = int(rng.integers(2, len(parts[1]) - 1))
            parts = [parts[0], parts[1][:c], parts[1][c:]]
        edges = []
        for pi, part in enumerate(parts):
            m_ = len(part)
            if pi == 0:
                sub = gen.ring(m_) if rng.random() < 0.6 else gen.random_connected_graph(rng, m_, 'cyclic')[1]
            else:
                sub = gen.random_tree(rng, m_) if rng.random() < 0.7 else gen.random_connected_graph(rng, m_, 'ring' if m_ >= 3 else 'tree')[1]
            edges += [(int(min(part[a], part[b])), int(max(part[a], part[b]))) for a, b in sub]
        edges = sorted(set(edges))
    elif kind == 'forest' and n >= 4:
        edges = gen.random_forest(rng, n, int(rng.integers(2, max(3, n // 2))))
    elif kind == 'forest':
        edges, kind = gen.random_tree(rng, n), 'tree'
    elif kind == 'tree':
        edges = gen.random_tree(rng, n)
    else:
        kind, edges = gen.random_connected_graph(rng, n, kind if n >= 3 else 'tree')
    decorate = bool(rng.random() < 0.6) if decorate is None else decorate
    if decorate:
        classes.add('decorated')
    molname = name or ('M' + ''.join('ABCDEFGHIJKLMNOPQRSTUVWXYZ0123456789'[int(i)] for i in rng.integers(0, 36, int(rng.integers(1, 6)))))
    # numbering
    numbering = numbering or ['plain', 'offset', 'gaps'][int(rng.integers(0, 3))]
    if numbering == 'plain':
        nums = list(range(1, n + 1))
    elif numbering == 'offset':
        start = int(rng.integers(2, 500))
        nums = list(range(start, start + n))
    else:
        steps = rng.integers(1, 6, n)
        nums = [int(x) for x in (int(rng.integers(1, 300)) + np.cumsum(steps))]
    classes.add('numbering:' + numbering)
    if n >= 100:
        # two different bonds whose atom numbers, written one after the other, give the same string: (11, 12) / (1, 112)
        seen, hit = {}, None
        for a in range(n):
            for b in range(a + 1, n):
                key = f'{nums[a]}{nums[b]}'
                if key in seen and seen[key] != (a, b):
                    hit = (seen[key], (a, b))
                    break
                seen[key] = (a, b)
            if hit:
                break
        if hit:
            edges = sorted(set(edges) | {hit[0], hit[1]})
            classes.add('colliding-number-strings')
    # residues
    multi_res = bool(rng.random() < 0.4 and n >= 2) if multi_res is None else (multi_res and n >= 2)
    if multi_res:
        nres = int(rng.integers(2, min(n, 8) + 1))
        cuts = sorted(int(x) for x in rng.choice(np.arange(1, n), size=nres - 1, replace=False))
        resid_of, r = [], 0
        for i in range(n):
            if r < len(cuts) and i >= cuts[r]:
                r += 1
            resid_of.append(r)
        first = int(rng.integers(1, 50))
        resnames_pool = ['ALA', 'GLY', 'LYS', 'TRP', 'R1', 'X']
        rn = [resnames_pool[int(rng.integers(0, len(resnames_pool)))] for _ in range(nres)]
        resids = [first + k for k in resid_of]
        resnames = [rn[k] for k in resid_of]
        classes.add('multi-residue')
    else:
        resids = [int(rng.integers(1, 9))] * n
        resnames = [molname[:4]] * n
    names = [f'{"CNOSPHB"[i % 7]}{i}' for i in range(n)]
    with_charge = rng.random() < 0.8
    with_mass = with_charge and rng.random() < 0.5
    atom_lines = []
    for i in range(n):
        f = [nums[i], 'T%d' % (i % 5), resids[i], resnames[i], names[i], i + 1]
        if with_charge:
            f.append('%.3f' % rng.normal())
        if with_mass:
            f.append('%.4f' % rng.uniform(1, 40))
        line = _sp(rng, decorate).join(str(x) for x in f)
        atom_lines.append(line)
    # split the bonds over the three sections
    secs = {'bonds': [], 'constraints': [], 'pairs': []}
    split = ['bonds-only', 'three-way'][int(rng.integers(0, 2))] if edges else 'none'
    for (a, b) in edges:
        if rng.random() < 0.5:
            a, b = b, a
        key = 'bonds' if split == 'bonds-only' else ['bonds', 'constraints', 'pairs'][int(rng.integers(0, 3))]
        secs[key].append((nums[a], nums[b]))
    if split == 'three-way':
        classes.add('bonds-three-way')
        if edges and rng.random() < 0.3:
            a, b = edges[int(rng.integers(0, len(edges)))]
            secs[['bonds', 'constraints', 'pairs'][int(rng.integers(0, 3))]].append((nums[b], nums[a]))  # listed twice
            classes.add('duplicate-bond')
    out = []
    if decorate and rng.random() < 0.5:
        out += ['; header text before the first section\n', '; generated topology\n', '\n']
        classes.add('header-text')

    def trailing_comment():
        t = trailing[int(rng.integers(0, len(trailing)))]
        classes.add('trailing:' + t)
        return {'plain': '', 'single': ' ; c1', 'empty': ' ;', 'multiple': ' ; a ; b', 'hash': ' ; # third',
                'nospace': ';tight', 'hash-nospace': ';#3 is the tail', 'multiple-last-empty': ' ; a ; see note 3 ;', 'semicolons-only': ' ;;'}[t]

    def emit_section(secname, lines, indent=True):
        hdr = '[ %s ]' if not decorate else ['[ %s ]', '[%s]', '[  %s  ]', ' [ %s ]'][int(rng.integers(0, 4))]
        out.append(hdr % secname + '\n')
        if decorate and rng.random() < 0.7:
            out.append('; columns of %s\n' % secname)
        # balanced conditional blocks around runs of content lines: every line counts, whatever the branch
        block_at = {}
        if decorate and len(lines) >= 2 and rng.random() < 0.35:
            a = int(rng.integers(0, len(lines) - 1))
            b = int(rng.integers(a + 1, len(lines)))
            c = int(rng.integers(b, len(lines))) if rng.random() < 0.7 else None
            block_at[a] = ['#ifdef FLEXIBLE\n', '#ifndef RIGID\n', '#if 1\n'][int(rng.integers(0, 3))]
            if c is not None and c > b:
                block_at[b] = '#else\n'
                block_at[c] = block_at.get(c, '') + '#endif\n' if c not in block_at else block_at[c]
                classes.add('conditional-block-with-else')
            else:
                block_at[b] = '#endif\n'
            classes.add('conditional-block')
        closed = True
        for li, ln in enumerate(lines):
            if li in block_at:
                out.append(block_at[li])
                closed = block_at[li].startswith('#endif')
            _noise(rng, decorate, out)
            out.append((_sp(rng, decorate) if indent else '') + ln + trailing_comment() + '\n')
        if block_at and not closed:
            out.append('#endif\n')
        _noise(rng, decorate, out)
        out.append('\n')

    emit_section('moleculetype', [f'{molname}{_sp(rng, decorate)}{int(rng.integers(1, 4))}'])
    order = [k for k in ('bonds', 'constraints', 'pairs') if secs[k]]
    extras = []
    if rng.random() < 0.6 and n >= 3:
        extras.append(('angles', [f'{nums[0]} {nums[1]} {nums[2]} 2 120.0 25.0']))
    if rng.random() < 0.4 and n >= 4:
        extras.append(('dihedrals', [f'{nums[0]} {nums[1]} {nums[2]} {nums[3]} 1 0.0 5.0 2']))
    if rng.random() < 0.3 and n >= 2:
        extras.append(('exclusions', [f'{nums[0]} {nums[1]}']))
    blocks = [(k, [f'{a}{_sp(rng, decorate)}{b}{_sp(rng, decorate)}1{_sp(rng, decorate)}0.30 1250' if k != 'pairs'
                   else f'{a}{_sp(rng, decorate)}{b}{_sp(rng, decorate)}1' for a, b in secs[k]]) for k in order]
    if repeated:
        # split one (or the atoms) section into two blocks of the same name with something in between
        cand = [i for i, (k, ls) in enumerate(blocks) if len(ls) >= 2]
        if cand:
            i = cand[int(rng.integers(0, len(cand)))]
            k, ls = blocks[i]
            cut = int(rng.integers(1, len(ls)))
            blocks[i] = (k, ls[:cut])
            blocks.append((k, ls[cut:]))
            classes.add('repeated-section:' + k)
        if blocks and rng.random() < 0.4:
            # an occurrence without any content line (only its legend comment / blank / preprocessor lines) before the
            # occurrence that lists the pairs
            k0 = blocks[int(rng.integers(0, len(blocks)))][0]
            blocks.insert(0, (k0, []))
            classes.add('repeated-section:first-occurrence-empty')
        for (k, ls) in list(extras):
            if k == 'dihedrals' and rng.random() < 0.7:
                extras.append(('dihedrals', [f'{nums[0]} {nums[2]} {nums[1]} {nums[3]} 2 0.0 100.0']))
                classes.add('repeated-section:dihedrals')
    rest = blocks + extras
    if len(rest) > 1 and not repeated:
        perm = rng.permutation(len(rest))
        rest = [rest[int(i)] for i in perm]
    elif repeated and len(rest) > 2:
        # keep the two halves apart: shuffle the middle only
        mid = rest[1:-1]
        perm = rng.permutation(len(mid))
        rest = [rest[0]] + [mid[int(i)] for i in perm] + [rest[-1]]
    if sections_before_atoms and rest:
        classes.add('bonds-before-atoms')
        k = int(rng.integers(1, len(rest) + 1))
        for name_, ls in rest[:k]:
            emit_section(name_, ls)
        emit_section('atoms', atom_lines)
        for name_, ls in rest[k:]:
            emit_section(name_, ls)
    else:
        emit_section('atoms', atom_lines)
        for name_, ls in rest:
            emit_section(name_, ls)
    text = ''.join(out)
    if decorate and rng.random() < 0.2:
        text = text.rstrip('\n')       # last line without newline
        classes.add('no-final-newline')
    truth = {'name': molname, 'atoms': [(names[i], resnames[i], resids[i]) for i in range(n)],
             'bonds': {(min(a, b), max(a, b)) for a, b in edges}, 'n': n, 'kind': kind, 'classes': classes,
             'numbers': nums}
    return text, truth
