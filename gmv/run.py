"""
Runner:  python -m gmv.run C07 quick|thorough [--replay F] [--jobs N]
                          [--shard i/n --partial FILE]

A check module (gmv/checks/cXX.py) provides
    LEVEL, RULE, ASSUMPTIONS, REQUIRED_MONITORS, REQUIRED_CLASSES
    JOBS = {'quick': 1, 'thorough': 16}
    setup(ctx)              install monitors
    cases(ctx)              generator of small JSON-able case descriptors
    run_case(ctx, case)     expand the descriptor, drive the real code, let the
                            monitors record
    finalize(ctx)           optional, parent only, after merging
Shards are separate processes (subprocess.run with a timeout; a shard that
dies or times out makes the run inconclusive, never held or violated).
"""
import argparse
import importlib
import json
import os
import shutil
import subprocess
import sys
import tempfile
import time

from . import core


def run_cases(ctx, mod, shard, sample=None):
    import warnings
    import numpy as np
    _filters0 = list(warnings.filters)
    _err0 = np.geterr()
    i, n = shard
    mod.setup(ctx)
    deadline = getattr(mod, 'SHARD_SOFT_DEADLINE_S', None)
    for idx, case in enumerate(mod.cases(ctx)):
        if sample is not None:
            # the sample of all cases that is repeated in an interpreter started without assert statements
            if (idx * 7919 + ctx.seed) % sample:
                continue
            ctx.hit('interpreter:assert-statements-stripped' if sys.flags.optimize else 'interpreter:sample-without-stripping')
        elif idx % n != i:
            continue
        ctx.current_case = case
        # every case starts from the same warning filters and NumPy error state (cases set their own: core.settings)
        warnings.filters[:] = _filters0
        np.seterr(**_err0)
        tty = bool(((idx * 2654435761) >> 9) & 1)      # half of the cases run with a terminal-like stdout
        ctx.hit('stdout:terminal-like' if tty else 'stdout:captured')
        ctx.case_tty = tty
        try:
            with core.quiet(tty=tty):
                mod.run_case(ctx, case)
        except KeyboardInterrupt:
            raise
        except BaseException as exc:  # noqa
            # an exception escaping a case is either a library crash the check
            # did not anticipate or a harness bug; both must be looked at.
            where = core.format_exc()
            ctx.violation(f'unexpected-exception:{type(exc).__name__}',
                          f'{type(exc).__name__}: {exc}', witness={'traceback': where})
        ctx.current_case = None
    if hasattr(mod, 'teardown'):
        mod.teardown(ctx)


def main(argv=None):
    ap = argparse.ArgumentParser()
    ap.add_argument('prop')
    ap.add_argument('tier', nargs='?', default='quick', choices=['quick', 'thorough'])
    ap.add_argument('--replay')
    ap.add_argument('--jobs', type=int)
    ap.add_argument('--shard')
    ap.add_argument('--partial')
    ap.add_argument('--sample', type=int)
    ap.add_argument('--no-evidence', action='store_true')
    args = ap.parse_args(argv)
    prop = args.prop.upper()
    seed = int(os.environ.get('VERIF_SEED', '0') or 0)
    core.import_repo()
    mod = importlib.import_module(f'gmv.checks.{prop.lower()}')

    if args.replay:
        with open(args.replay) as fh:
            data = json.load(fh)
        if data.get('optimize') and not sys.flags.optimize:
            # the witness was observed in an interpreter without assert statements: replay it in one
            return subprocess.call([sys.executable, '-W', 'ignore', '-m', 'gmv.run'] + list(argv if argv is not None else sys.argv[1:]),
                                   cwd=core.VERIF, env=dict(os.environ, PYTHONOPTIMIZE='1'))
        ctx = core.Ctx(prop, data.get('tier', 'quick'), data.get('seed', seed))
        mod.setup(ctx)
        ctx.current_case = data['case']
        ctx.count('evaluations', 0)
        ctx.case_tty = bool(data.get('tty', False))
        try:
            with core.quiet(tty=ctx.case_tty):
                mod.run_case(ctx, data['case'])
        except BaseException as exc:  # noqa
            ctx.violation(f'unexpected-exception:{type(exc).__name__}',
                          f'{type(exc).__name__}: {exc}',
                          witness={'traceback': core.format_exc()})
        # a replay decides one case only: no evidence, no class requirements
        for mech, v in ctx.violations.items():
            print(f'VIOLATION property={prop} replay={args.replay} mechanism={mech} :: {v["message"][:300]}')
        print(f'{prop} replay: {"violated" if ctx.violations else "held"}')
        return 1 if ctx.violations else 0

    if args.shard:
        try:   # die with the parent (a killed run must not leave shards behind)
            import ctypes
            import signal
            ctypes.CDLL('libc.so.6').prctl(1, signal.SIGKILL)
        except Exception:  # noqa
            pass
        i, n = (int(x) for x in args.shard.split('/'))
        ctx = core.Ctx(prop, args.tier, seed, (i, n))
        run_cases(ctx, mod, (i, n), sample=args.sample)
        with open(args.partial, 'w') as fh:
            json.dump(ctx.dump(), fh)
        return 0

    jobs = args.jobs or getattr(mod, 'JOBS', {}).get(args.tier, 1)
    jobs = max(1, min(jobs, os.cpu_count() or 1))

    def one_pass(pass_seed):
        """All cases of the tier under one seed (in shards when jobs > 1), merged into one Ctx."""
        c = core.Ctx(prop, args.tier, pass_seed)
        if jobs == 1:
            run_cases(c, mod, (0, 1))
            return c
        timeout = getattr(mod, 'SHARD_TIMEOUT_S', {}).get(args.tier, 900 if args.tier == 'quick' else 4 * 3600)
        tmp = tempfile.mkdtemp(prefix=f'gmv_{prop}_')
        try:
            procs = []
            for i in range(jobs):
                part = os.path.join(tmp, f'part{i}.json')
                cmd = [sys.executable, '-W', 'ignore', '-m', 'gmv.run', prop, args.tier,
                       '--shard', f'{i}/{jobs}', '--partial', part]
                procs.append((i, part, subprocess.Popen(
                    cmd, stdout=subprocess.DEVNULL, stderr=subprocess.PIPE, cwd=core.VERIF,
                    env=dict(os.environ, VERIF_SEED=str(pass_seed)))))
            # one more process repeats a sample of all cases (one in OPT_SAMPLE) in an interpreter that was started without
            # assert statements (PYTHONOPTIMIZE=1, inherited by the processes the cases start themselves): what the
            # library promises does not depend on that option
            k = getattr(mod, 'OPT_SAMPLE', {}).get(args.tier, 4 if args.tier == 'quick' else 8)
            if k:
                c.extra['asserts_stripped_sample'] = f'one case in {k}'
                part = os.path.join(tmp, 'part_opt.json')
                cmd = [sys.executable, '-W', 'ignore', '-m', 'gmv.run', prop, args.tier,
                       '--shard', f'{jobs}/{jobs}', '--sample', str(k), '--partial', part]
                procs.append((f'{jobs}(asserts stripped)', part, subprocess.Popen(
                    cmd, stdout=subprocess.DEVNULL, stderr=subprocess.PIPE, cwd=core.VERIF,
                    env=dict(os.environ, VERIF_SEED=str(pass_seed), PYTHONOPTIMIZE='1'))))
            t_end = time.time() + timeout
            for i, part, p in procs:
                try:
                    _, err = p.communicate(timeout=max(1, t_end - time.time()))
                except subprocess.TimeoutExpired:
                    p.kill()
                    p.communicate()
                    c.inconclusive_because(f'shard {i}/{jobs} hit the {timeout}s watchdog')
                    continue
                if p.returncode != 0 or not os.path.exists(part):
                    tail = (err or b'').decode(errors='replace')[-600:]
                    c.inconclusive_because(f'shard {i}/{jobs} died rc={p.returncode}: {tail}')
                    continue
                with open(part) as fh:
                    c.merge(json.load(fh))
        finally:
            shutil.rmtree(tmp, ignore_errors=True)
        return c

    def unreached(c):
        required = getattr(mod, 'REQUIRED_CLASSES', {})
        required = required.get(args.tier, required.get('all', ())) if isinstance(required, dict) else required
        return [n for n in required if c.classes.get(n, 0) == 0]

    ctx = one_pass(seed)
    # Input classes are drawn at random; with an unlucky seed a required one may not come up.  That says nothing about the
    # code under test, so the workload is extended (same cases, another seed, at most twice) before the run is called
    # inconclusive.  Never done when something was refuted or a shard failed.
    extra = 0
    while extra < 2 and not ctx.violations and not ctx.inconclusive and unreached(ctx):
        extra += 1
        seed2 = seed + 1000003 * extra
        ctx.note(f'input classes {unreached(ctx)} were not reached with seed {seed}: supplementary pass with seed {seed2}')
        more = one_pass(seed2)
        ctx.merge(more.dump())
    if hasattr(mod, 'finalize'):
        mod.finalize(ctx)
    return core.finish(ctx, mod, write_evidence=not args.no_evidence)


if __name__ == '__main__':
    sys.exit(main())
