"""
Exchange-map monitors and generators shared by C01-C05 and C20.

The contract is installed on the class (ExchangeMap.__init__ / __call__).  At
construction it derives, from the *arguments only* (coordinates, bond graph,
scale), what the anchor-and-scale law predicts; at every call it judges the
returned molecule:
  * C03(i)  every atom lies at s x its construction distance from its anchor,
            atoms sharing an anchor keep their mutual distances x s;
  * C01     when the argument has the construction coordinates, every atom is
            at a + s (p - a).
Violations are recorded under the mechanisms em-shape-* and em-law-*.
"""
import numpy as np

from . import gen, ref

TOL_SHAPE = 1e-9
TOL_LAW = 1e-9


class Model:
    """Independent model of one exchange map (built from the arguments)."""

    def __init__(self, ref_pos, edges, tgt_pos, s):
        self.ref_pos = np.array(ref_pos, float)
        self.tgt_pos = np.array(tgt_pos, float)
        self.s = float(s)
        self.n = len(self.ref_pos)
        self.edges = sorted({(min(a, b), max(a, b)) for a, b in edges if a != b})
        if self.n >= 3:
            self.anchors = ref.anchors_of(self.n, self.edges)
        else:
            self.anchors = [0]
        self.allowed = []     # per target atom: list of admissible anchors
        self.gap = []
        if self.anchors and len(self.tgt_pos):
            A = self.ref_pos[self.anchors]
            D = np.sqrt(((self.tgt_pos[:, None, :] - A[None, :, :]) ** 2).sum(axis=-1))
            for row in D:
                best = float(row.min())
                tied = row - best <= 1e-12 * max(1.0, best)
                al = [self.anchors[int(i)] for i in np.nonzero(tied)[0]]
                rest = row[~tied]
                self.allowed.append(al)
                self.gap.append(float(rest.min() - best) if len(rest) else np.inf)
        else:
            self.allowed = [[] for _ in self.tgt_pos]
            self.gap = [np.inf for _ in self.tgt_pos]
        self.frames = {}
        for a in self.anchors:
            if self.n >= 3:
                n1, n2 = ref.frame_neighbours(self.n, self.edges, a)
                self.frames[a] = (n1, n2)

    def anchor_class(self, a, pos=None):
        """generic / collinear / illconditioned for the frame of anchor a in a
        conformation (default: construction)."""
        pos = self.ref_pos if pos is None else pos
        if self.n < 3:
            return 'axis-free'
        n1, n2 = self.frames[a]
        s = gen.sin_angle(pos[a], pos[n1], pos[n2])
        if s <= 1e-12:
            return 'collinear'
        if s >= 1e-2:
            return 'generic'
        return 'illconditioned'

    def predicted(self, k, anchor):
        a = self.ref_pos[anchor]
        return a + self.s * (self.tgt_pos[k] - a)


def mol_edges(mol):
    edges = set()
    for i, atom in enumerate(mol):
        for j in atom.bonds:
            edges.add((min(i, j), max(i, j)))
    return sorted(edges)


def install_contract(ctx, on_call=None, law=True):
    """Wrap ExchangeMap.__init__/__call__ on the class."""
    from gaddlemaps import _exchage_map
    EM = _exchage_map.ExchangeMap
    real_init = EM.__dict__['__init__']
    real_call = EM.__dict__['__call__']
    real_init = getattr(real_init, '__gmv_original__', real_init)
    real_call = getattr(real_call, '__gmv_original__', real_call)

    def __init__(self, refmolecule, targetmolecule, scale_factor=0.5):
        model = None
        try:
            model = Model(refmolecule.atoms_positions, mol_edges(refmolecule),
                          targetmolecule.atoms_positions, scale_factor)
        except Exception as exc:  # noqa
            ctx.count('em_model_not_built')
        real_init(self, refmolecule, targetmolecule, scale_factor)
        self.__dict__['_gmv_model'] = model

    def __call__(self, refmolecule):
        arg_pos = None
        try:
            arg_pos = np.array(refmolecule.atoms_positions, float)
        except Exception:  # noqa
            pass
        out = real_call(self, refmolecule)
        try:
            model = self.__dict__.get('_gmv_model')
            if model is not None and arg_pos is not None:
                judge_call(ctx, model, arg_pos, np.array(out.atoms_positions, float), law=law)
                if on_call is not None:
                    on_call(self, model, refmolecule, arg_pos, out)
        except Exception as exc:  # noqa
            ctx.violation('monitor-error:exchange-map', repr(exc))
        return out
    __init__.__gmv_original__ = real_init
    __call__.__gmv_original__ = real_call
    EM.__init__ = __init__
    EM.__call__ = __call__


def judge_call(ctx, model, arg_pos, out_pos, law=True):
    if len(out_pos) != len(model.tgt_pos):
        ctx.violation('em-result-size', f'{len(out_pos)} atoms returned, target has {len(model.tgt_pos)}')
        return
    if not np.all(np.isfinite(out_pos)):
        cls = 'small-reference' if model.n < 3 else 'general'
        ctx.violation(f'em-result-nonfinite:{cls}', 'non-finite coordinates in the mapped molecule',
                      witness={'ref': model.ref_pos, 'arg': arg_pos})
        return
    same = law and arg_pos.shape == model.ref_pos.shape and np.array_equal(arg_pos, model.ref_pos)
    s = model.s
    by_anchor = {}
    scale = 1.0 + float(np.abs(arg_pos).max()) if len(arg_pos) else 1.0
    judged = False
    for k in range(len(out_pos)):
        allowed = model.allowed[k]
        if not allowed:
            continue
        if len(allowed) > 1 or model.gap[k] < 1e-9:
            ctx.count('em_skipped_anchor_tie')
            # any admissible anchor may have been used
            cand = allowed
        else:
            cand = allowed
        judged = True
        # --- shape: distance to the anchor
        ok_shape = False
        best = None
        for a in cand:
            want = s * np.linalg.norm(model.tgt_pos[k] - model.ref_pos[a])
            got = np.linalg.norm(out_pos[k] - arg_pos[a])
            err = abs(got - want)
            best = err if best is None else min(best, err)
            if err <= TOL_SHAPE * max(1.0, want, scale * 1e-3):
                ok_shape = True
                by_anchor.setdefault(a, []).append(k)
                break
        if not ok_shape:
            cls = 'small-reference' if model.n < 3 else model.anchor_class(cand[0], arg_pos)
            if cls != 'illconditioned':
                ctx.violation(f'em-shape-distance-to-anchor:{cls}',
                              f'target atom {k}: distance to its anchor off by {best:.3g} (s={s})',
                              witness={'ref': model.ref_pos, 'arg': arg_pos, 'edges': model.edges, 'target': model.tgt_pos, 's': s, 'atom': k})
            else:
                ctx.count('em_skipped_illconditioned')
        # --- law: a + s (p - a) on the construction coordinates
        if same and model.n >= 3:
            errs = [float(np.linalg.norm(out_pos[k] - model.predicted(k, a))) for a in cand]
            if min(errs) > TOL_LAW * max(1.0, scale * 1e-3):
                a = cand[int(np.argmin(errs))]
                cls = model.anchor_class(a)
                if cls != 'illconditioned':
                    ctx.violation(f'em-law-anchor-and-scale:{cls}',
                                  f'target atom {k}: |out - (a + s(p-a))| = {min(errs):.3g} (s={s}, anchor {a} is {cls})',
                                  witness={'ref': model.ref_pos, 'edges': model.edges, 'target': model.tgt_pos, 's': s, 'atom': k})
    if judged:
        ctx.monitor('em_shape_contract')
        if same and model.n >= 3:
            ctx.monitor('em_law_contract')
    # --- shape: mutual distances of atoms that share an anchor
    for a, ks in by_anchor.items():
        if len(ks) < 2:
            continue
        ks = ks[:12]
        P = model.tgt_pos[ks]
        O = out_pos[ks]
        dp = np.linalg.norm(P[:, None] - P[None, :], axis=-1) * s
        do = np.linalg.norm(O[:, None] - O[None, :], axis=-1)
        err = float(np.abs(dp - do).max())
        if err > TOL_SHAPE * max(1.0, float(dp.max()), scale * 1e-3):
            cls = 'small-reference' if model.n < 3 else model.anchor_class(a, arg_pos)
            if cls != 'illconditioned':
                ctx.violation(f'em-shape-mutual-distances:{cls}',
                              f'atoms sharing anchor {a}: mutual distances off by {err:.3g} (s={s})',
                              witness={'ref': model.ref_pos, 'arg': arg_pos, 'edges': model.edges, 'target': model.tgt_pos, 's': s, 'atoms': ks})


# ---------------------------------------------------------------------------
# generators of (reference, target, s) cases

GEOMETRY = ['generic', 'generic', 'linear-x', 'linear-y', 'linear-z', 'linear-diag', 'linear-int', 'linear-moved',
            'partial-collinear', 'planar-xy', 'lattice', 'generic-moved', 'partial-collinear-z']
PLACEMENT = ['around', 'inside', 'far', 'on-atoms', 'box-scale']
SCALES = ['one', 'half', 'uniform']


def gen_reference(rng, geometry, nmin=3, nmax=40):
    """(edges, pos, info).  Collinear classes are exact in floating point
    (integer direction x integer multiples x power-of-two scale) unless the
    class says 'moved'."""
    n = int(rng.integers(nmin, nmax + 1))
    if rng.random() < 0.4:
        n = int(rng.integers(nmin, min(nmax, 8) + 1))
    info = {'geometry': geometry}
    if geometry.startswith('linear'):
        # a chain (possibly relabelled) on a line: every anchor is collinear with its neighbours
        d = {'linear-x': np.array([1.0, 0, 0]), 'linear-y': np.array([0, 1.0, 0]), 'linear-z': np.array([0, 0, 1.0]),
             'linear-diag': rng.choice([-1.0, 1.0], 3)}.get(geometry)
        if d is None:
            d = rng.integers(-4, 5, 3).astype(float)
            if not d.any():
                d = np.array([1.0, 2.0, -1.0])
        perm = rng.permutation(n) if rng.random() < 0.5 else np.arange(n)
        edges = sorted((int(min(perm[i], perm[i + 1])), int(max(perm[i], perm[i + 1]))) for i in range(n - 1))
        steps = np.cumsum(rng.integers(1, 4, n)).astype(float)
        pos = np.zeros((n, 3))
        origin = rng.integers(-8, 9, 3).astype(float) * 0.25
        for i in range(n):
            pos[perm[i]] = origin + d * steps[i] * 0.125
        if geometry == 'linear-moved':
            R, t = gen.random_rotation(rng), rng.normal(size=3) * 3
            pos = pos @ R.T + t
        info['kind'] = 'chain'
        return edges, pos, info
    kind, edges = gen.random_connected_graph(rng, n)
    info['kind'] = kind
    if geometry == 'lattice':
        # bonds along coordinate axes on an integer lattice (self-avoiding growth)
        adj = gen.adjacency(n, edges)
        for _ in range(200):
            pos = {0: (0, 0, 0)}
            used = {(0, 0, 0)}
            queue = [0]
            ok = True
            while queue and ok:
                v = queue.pop(0)
                for w in sorted(adj[v]):
                    if w in pos:
                        continue
                    dirs = [(1, 0, 0), (-1, 0, 0), (0, 1, 0), (0, -1, 0), (0, 0, 1), (0, 0, -1)]
                    rng.shuffle(dirs)
                    for dx in dirs:
                        for step in (1, 2, 3):
                            c = tuple(pos[v][i] + dx[i] * step for i in range(3))
                            if c not in used:
                                break
                        else:
                            continue
                        break
                    else:
                        ok = False
                        break
                    pos[w] = c
                    used.add(c)
                    queue.append(w)
            if ok and len(pos) == n:
                arr = np.array([pos[i] for i in range(n)], float) * 0.25
                return edges, arr, info
        geometry = info['geometry'] = 'generic'
    pos = gen.embed_graph(rng, n, edges)
    if geometry == 'planar-xy':
        pos[:, 2] = 0.0
        pos[:, :2] += rng.normal(size=(n, 2)) * 1e-3
        for _ in range(50):
            if gen.min_pair_distance(pos) > 0.02:
                break
            pos[:, :2] += rng.normal(size=(n, 2)) * 0.05
    if geometry.startswith('partial-collinear'):
        anchors = ref.anchors_of(n, edges)
        pick = [anchors[int(i)] for i in rng.choice(len(anchors), size=int(rng.integers(1, len(anchors) + 1)), replace=False)]
        done = set()
        for a in pick:
            n1, n2 = ref.frame_neighbours(n, edges, a)
            if {a, n1, n2} & done:
                continue
            d = np.array([0, 0, 1.0]) if geometry.endswith('-z') else rng.integers(-3, 4, 3).astype(float)
            if not d.any():
                d = np.array([1.0, 0, 0])
            pos[a] = np.round(pos[a] * 64) / 64
            k1, k2 = rng.choice([-3, -2, -1, 1, 2, 3], 2, replace=False)
            pos[n1] = pos[a] + d * float(k1) * 0.125
            pos[n2] = pos[a] + d * float(k2) * 0.125
            done |= {a, n1, n2}
        if gen.min_pair_distance(pos) < 1e-3:
            return gen_reference(rng, 'generic', nmin, nmax)
    if geometry == 'generic-moved':
        R, t = gen.random_rotation(rng), rng.normal(size=3) * 50
        pos = pos @ R.T + t
    return edges, pos, info


def frames_ok(n, edges, pos, allow_collinear=True):
    """No anchor in the ill-conditioned band (1e-12 < sin < 1e-2)."""
    for a in ref.anchors_of(n, edges):
        n1, n2 = ref.frame_neighbours(n, edges, a)
        s = gen.sin_angle(pos[a], pos[n1], pos[n2])
        if 1e-12 < s < 1e-2:
            return False
        if s <= 1e-12 and not allow_collinear:
            return False
    return True


def gen_target(rng, ref_pos, placement, mmax=120):
    m = int(rng.integers(1, mmax + 1))
    if rng.random() < 0.5:
        m = int(rng.integers(1, min(mmax, 30) + 1))
    c = ref_pos.mean(axis=0)
    spread = max(0.3, float(np.abs(ref_pos - c).max()))
    if placement == 'around':
        pos = c + rng.normal(size=(m, 3)) * spread
    elif placement == 'inside':
        idx = rng.integers(0, len(ref_pos), m)
        pos = ref_pos[idx] + rng.normal(size=(m, 3)) * 0.05
    elif placement == 'far':
        pos = c + rng.normal(size=3) * 1e3 + rng.normal(size=(m, 3)) * spread
    elif placement == 'on-atoms':
        idx = rng.integers(0, len(ref_pos), m)
        pos = ref_pos[idx].copy()
        off = rng.random(m) < 0.5
        pos[off] += rng.normal(size=(int(off.sum()), 3)) * 0.2
    else:
        pos = c + rng.uniform(-50, 50, 3) + rng.normal(size=(m, 3)) * spread
    return pos


def gen_scale(rng, cls):
    return {'one': 1.0, 'half': 0.5}.get(cls) or float(rng.uniform(0.02, 2.0))


def build_pair(rng, edges, ref_pos, tgt_pos, name='MOL', multi_res=False):
    n, m = len(ref_pos), len(tgt_pos)
    if multi_res and n >= 2 and m >= 2:
        nres = int(rng.integers(2, min(n, m, 5) + 1))
        cut_r = sorted(int(x) for x in rng.choice(np.arange(1, n), nres - 1, replace=False))
        cut_t = sorted(int(x) for x in rng.choice(np.arange(1, m), nres - 1, replace=False))
        rid_r = np.searchsorted(cut_r, np.arange(n), side='right') + 1
        rid_t = np.searchsorted(cut_t, np.arange(m), side='right') + 1
        rn = ['RA', 'RB', 'RC', 'RD', 'RE']
        refm = gen.make_molecule(name, gen.atom_names(n, 'B'), edges, ref_pos,
                                 resnames=[rn[r - 1] for r in rid_r], resids=[int(r) for r in rid_r])
        tgtm = gen.make_molecule(name, gen.atom_names(m, 'C'), gen.random_tree(rng, m), tgt_pos,
                                 resnames=[rn[r - 1] for r in rid_t], resids=[int(r) for r in rid_t])
    else:
        refm = gen.make_molecule(name, gen.atom_names(n, 'B'), edges, ref_pos)
        tgtm = gen.make_molecule(name, gen.atom_names(m, 'C'), gen.random_tree(rng, m), tgt_pos)
    return refm, tgtm


def with_positions(mol, pos):
    c = mol.copy()
    c.atoms_positions = np.array(pos, float)
    return c
