"""
Exchange-map monitors and generators shared by C01-C05 and C20.

The contract is installed on the class (ExchangeMap.__init__ / __call__).  At
construction it derives, from the *arguments only* (coordinates, bond graph,
scale), what the anchor-and-scale law predicts; at every call it judges the
returned molecule:
  * C03(i)  every atom lies at s x its construction distance from its anchor,
            atoms sharing an anchor keep their mutual distances x s;
  * C01     when the argument has the construction coordinates, every atom is
            at a + s (p - a).
Violations are recorded under the mechanisms em-shape-* and em-law-*.
"""
import numpy as np

from . import bus, gen, ref

TOL_SHAPE = 1e-9
TOL_LAW = 1e-9


class Model:
    """Independent model of one exchange map (built from the arguments)."""

    def __init__(self, ref_pos, edges, tgt_pos, s):
        self.ref_pos = np.array(ref_pos, float)
        self.tgt_pos = np.array(tgt_pos, float)
        self.s = float(s)
        self.n = len(self.ref_pos)
        self.edges = sorted({(min(a, b), max(a, b)) for a, b in edges if a != b})
        if self.n >= 3:
            self.anchors = ref.anchors_of(self.n, self.edges)
        else:
            self.anchors = [0]
        self.allowed = []     # per target atom: list of admissible anchors
        self.gap = []
        if self.anchors and len(self.tgt_pos):
            A = self.ref_pos[self.anchors]
            D = np.sqrt(((self.tgt_pos[:, None, :] - A[None, :, :]) ** 2).sum(axis=-1))
            for row in D:
                best = float(row.min())
                tied = row - best <= 1e-12 * max(1.0, best)
                al = [self.anchors[int(i)] for i in np.nonzero(tied)[0]]
                rest = row[~tied]
                self.allowed.append(al)
                self.gap.append(float(rest.min() - best) if len(rest) else np.inf)
        else:
            self.allowed = [[] for _ in self.tgt_pos]
            self.gap = [np.inf for _ in self.tgt_pos]
        self.frames = {}
        for a in self.anchors:
            if self.n >= 3:
                n1, n2 = ref.frame_neighbours(self.n, self.edges, a)
                self.frames[a] = (n1, n2)

    def anchor_class(self, a, pos=None):
        """generic / collinear / illconditioned for the frame of anchor a in a
        conformation (default: construction)."""
        pos = self.ref_pos if pos is None else pos
        if self.n < 3:
            return 'axis-free'
        n1, n2 = self.frames[a]
        s = gen.sin_angle(pos[a], pos[n1], pos[n2])
        if s <= 1e-12:
            return 'collinear'
        if s >= 1e-2:
            return 'generic'
        return 'illconditioned'

    def predicted(self, k, anchor):
        a = self.ref_pos[anchor]
        return a + self.s * (self.tgt_pos[k] - a)


def mol_edges(mol):
    edges = set()
    for i, atom in enumerate(mol):
        for j in atom.bonds:
            edges.add((min(i, j), max(i, j)))
    return sorted(edges)


def install_contract(ctx, on_call=None, law=True):
    """Wrap ExchangeMap.__init__/__call__ on the class."""
    from gaddlemaps import _exchage_map
    EM = _exchage_map.ExchangeMap
    real_init = EM.__dict__['__init__']
    real_call = EM.__dict__['__call__']
    real_init = getattr(real_init, '__gmv_original__', real_init)
    real_call = getattr(real_call, '__gmv_original__', real_call)

    def __init__(self, *args, **kwargs):
        refmolecule, targetmolecule, scale_factor = bus.seen(('refmolecule', 'targetmolecule', 'scale_factor'), args, kwargs,
                                                             {'scale_factor': 0.5})
        model = None
        try:
            # the bond graph of the model: the generator's own when it attached one to the molecule (file-based
            # references: what the parsers made of the file is then part of what is judged), else the molecule's
            try:
                true_edges = object.__getattribute__(refmolecule, '_gmv_true_edges')
                ctx.count('em_models_from_generator_graph')
            except AttributeError:
                true_edges = mol_edges(refmolecule)
            with bus.neutral():
                model = Model(refmolecule.atoms_positions, true_edges,
                              targetmolecule.atoms_positions, scale_factor)
        except Exception as exc:  # noqa
            ctx.count('em_model_not_built')
        real_init(self, *args, **kwargs)
        self.__dict__['_gmv_model'] = model

    def __call__(self, *args, **kwargs):
        refmolecule, = bus.seen(('refmolecule',), args, kwargs)
        arg_pos = None
        try:
            arg_pos = np.array(refmolecule.atoms_positions, float)
        except Exception:  # noqa
            pass
        out = real_call(self, *args, **kwargs)
        try:
            with bus.neutral():
                model = self.__dict__.get('_gmv_model')
                if model is not None and arg_pos is not None:
                    judge_call(ctx, model, arg_pos, np.array(out.atoms_positions, float), law=law)
                    if on_call is not None:
                        on_call(self, model, refmolecule, arg_pos, out)
        except Exception as exc:  # noqa
            ctx.violation('monitor-error:exchange-map', repr(exc))
        return out
    __init__.__gmv_original__ = real_init
    __call__.__gmv_original__ = real_call
    EM.__init__ = __init__
    EM.__call__ = __call__


def judge_call(ctx, model, arg_pos, out_pos, law=True):
    if len(out_pos) != len(model.tgt_pos):
        ctx.violation('em-result-size', f'{len(out_pos)} atoms returned, target has {len(model.tgt_pos)}')
        return
    if not np.all(np.isfinite(out_pos)):
        cls = 'small-reference' if model.n < 3 else 'general'
        ctx.violation(f'em-result-nonfinite:{cls}', 'non-finite coordinates in the mapped molecule',
                      witness={'ref': model.ref_pos, 'arg': arg_pos})
        return
    same = law and arg_pos.shape == model.ref_pos.shape and np.array_equal(arg_pos, model.ref_pos)
    s = model.s
    by_anchor = {}
    scale = 1.0 + float(np.abs(arg_pos).max()) if len(arg_pos) else 1.0
    judged = False
    for k in range(len(out_pos)):
        allowed = model.allowed[k]
        if not allowed:
            continue
        if len(allowed) > 1 or model.gap[k] < 1e-9:
            ctx.count('em_skipped_anchor_tie')
            # any admissible anchor may have been used
            cand = allowed
        else:
            cand = allowed
        judged = True
        # --- shape: distance to the anchor
        ok_shape = False
        best = None
        for a in cand:
            want = s * np.linalg.norm(model.tgt_pos[k] - model.ref_pos[a])
            got = np.linalg.norm(out_pos[k] - arg_pos[a])
            err = abs(got - want)
            best = err if best is None else min(best, err)
            if err <= TOL_SHAPE * max(1.0, want, scale * 1e-3):
                ok_shape = True
                by_anchor.setdefault(a, []).append(k)
                break
        if not ok_shape:
            cls = 'small-reference' if model.n < 3 else model.anchor_class(cand[0], arg_pos)
            if cls != 'illconditioned':
                ctx.violation(f'em-shape-distance-to-anchor:{cls}',
                              f'target atom {k}: distance to its anchor off by {best:.3g} (s={s})',
                              witness={'ref': model.ref_pos, 'arg': arg_pos, 'edges': model.edges, 'target': model.tgt_pos, 's': s, 'atom': k})
            else:
                ctx.count('em_skipped_illconditioned')
        # --- law: a + s (p - a) on the construction coordinates
        if same and model.n >= 3:
            errs = [float(np.linalg.norm(out_pos[k] - model.predicted(k, a))) for a in cand]
            if min(errs) > TOL_LAW * max(1.0, scale * 1e-3):
                a = cand[int(np.argmin(errs))]
                cls = model.anchor_class(a)
                if cls != 'illconditioned':
                    ctx.violation(f'em-law-anchor-and-scale:{cls}',
                                  f'target atom {k}: |out - (a + s(p-a))| = {min(errs):.3g} (s={s}, anchor {a} is {cls})',
                                  witness={'ref': model.ref_pos, 'edges': model.edges, 'target': model.tgt_pos, 's': s, 'atom': k})
    if judged:
        ctx.monitor('em_shape_contract')
        if same and model.n >= 3:
            ctx.monitor('em_law_contract')
    # --- shape: mutual distances of atoms that share an anchor
    for a, ks in by_anchor.items():
        if len(ks) < 2:
            continue
        ks = ks[:12]
        P = model.tgt_pos[ks]
        O = out_pos[ks]
        dp = np.linalg.norm(P[:, None] - P[None, :], axis=-1) * s
        do = np.linalg.norm(O[:, None] - O[None, :], axis=-1)
        err = float(np.abs(dp - do).max())
        if err > TOL_SHAPE * max(1.0, float(dp.max()), scale * 1e-3):
            cls = 'small-reference' if model.n < 3 else model.anchor_class(a, arg_pos)
            if cls != 'illconditioned':
                ctx.violation(f'em-shape-mutual-distances:{cls}',
                              f'atoms sharing anchor {a}: mutual distances off by {err:.3g} (s={s})',
                              witness={'ref': model.ref_pos, 'arg': arg_pos, 'edges': model.edges, 'target': model.tgt_pos, 's': s, 'atoms': ks})


# ---------------------------------------------------------------------------
# generators of (reference, target, s) cases

GEOMETRY = ['generic', 'generic', 'linear-x', 'linear-y', 'linear-z', 'linear-diag', 'linear-int', 'linear-moved',
            'partial-collinear', 'planar-xy', 'lattice', 'generic-moved', 'partial-collinear-z']
PLACEMENT = ['around', 'inside', 'far', 'on-atoms', 'box-scale']
SCALES = ['one', 'half', 'uniform']


def gen_reference(rng, geometry, nmin=3, nmax=40):
    """(edges, pos, info).  Collinear classes are exact in floating point
    (integer direction x integer multiples x power-of-two scale) unless the
    class says 'moved'."""
    n = int(rng.integers(nmin, nmax + 1))
    if rng.random() < 0.4:
        n = int(rng.integers(nmin, min(nmax, 8) + 1))
    info = {'geometry': geometry}
    if geometry.startswith('linear'):
        # a chain (possibly relabelled) on a line: every anchor is collinear with its neighbours
        d = {'linear-x': np.array([1.0, 0, 0]), 'linear-y': np.array([0, 1.0, 0]), 'linear-z': np.array([0, 0, 1.0]),
             'linear-diag': rng.choice([-1.0, 1.0], 3)}.get(geometry)
        if d is None:
            d = rng.integers(-4, 5, 3).astype(float)
            if not d.any():
                d = np.array([1.0, 2.0, -1.0])
        perm = rng.permutation(n) if rng.random() < 0.5 else np.arange(n)
        edges = sorted((int(min(perm[i], perm[i + 1])), int(max(perm[i], perm[i + 1]))) for i in range(n - 1))
        steps = np.cumsum(rng.integers(1, 4, n)).astype(float)
        pos = np.zeros((n, 3))
        origin = rng.integers(-8, 9, 3).astype(float) * 0.25
        for i in range(n):
            pos[perm[i]] = origin + d * steps[i] * 0.125
        if geometry == 'linear-moved':
            R, t = gen.random_rotation(rng), rng.normal(size=3) * 3
            pos = pos @ R.T + t
        info['kind'] = 'chain'
        return edges, pos, info
    kind, edges = gen.random_connected_graph(rng, n)
    info['kind'] = kind
    if geometry == 'lattice':
        # bonds along coordinate axes on an integer lattice (self-avoiding growth)
        adj = gen.adjacency(n, edges)
        for _ in range(200):
            pos = {0: (0, 0, 0)}
            used = {(0, 0, 0)}
            queue = [0]
            ok = True
            while queue and ok:
                v = queue.pop(0)
                for w in sorted(adj[v]):
                    if w in pos:
                        continue
                    dirs = [(1, 0, 0), (-1, 0, 0), (0, 1, 0), (0, -1, 0), (0, 0, 1), (0, 0, -1)]
                    rng.shuffle(dirs)
                    for dx in dirs:
                        for step in (1, 2, 3):
                            c = tuple(pos[v][i] + dx[i] * step for i in range(3))
                            if c not in used:
                                break
                        else:
                            continue
                        break
                    else:
                        ok = False
                        break
                    pos[w] = c
                    used.add(c)
                    queue.append(w)
            if ok and len(pos) == n:
                arr = np.array([pos[i] for i in range(n)], float) * 0.25
                return edges, arr, info
        geometry = info['geometry'] = 'generic'
    pos = gen.embed_graph(rng, n, edges)
    if geometry == 'planar-xy':
        pos[:, 2] = 0.0
        pos[:, :2] += rng.normal(size=(n, 2)) * 1e-3
        for _ in range(50):
            if gen.min_pair_distance(pos) > 0.02:
                break
            pos[:, :2] += rng.normal(size=(n, 2)) * 0.05
    if geometry.startswith('partial-collinear'):
        anchors = ref.anchors_of(n, edges)
        pick = [anchors[int(i)] for i in rng.choice(len(anchors), size=int(rng.integers(1, len(anchors) + 1)), replace=False)]
        done = set()
        for a in pick:
            n1, n2 = ref.frame_neighbours(n, edges, a)
            if {a, n1, n2} & done:
                continue
            d = np.array([0, 0, 1.0]) if geometry.endswith('-z') else rng.integers(-3, 4, 3).astype(float)
            if not d.any():
                d = np.array([1.0, 0, 0])
            pos[a] = np.round(pos[a] * 64) / 64
            k1, k2 = rng.choice([-3, -2, -1, 1, 2, 3], 2, replace=False)
            pos[n1] = pos[a] + d * float(k1) * 0.125
            pos[n2] = pos[a] + d * float(k2) * 0.125
            done |= {a, n1, n2}
        if gen.min_pair_distance(pos) < 1e-3:
            return gen_reference(rng, 'generic', nmin, nmax)
    if geometry == 'generic-moved':
        R, t = gen.random_rotation(rng), rng.normal(size=3) * 50
        pos = pos @ R.T + t
    return edges, pos, info


def frames_ok(n, edges, pos, allow_collinear=True):
    """No anchor in the ill-conditioned band (1e-12 < sin < 1e-2)."""
    for a in ref.anchors_of(n, edges):
        n1, n2 = ref.frame_neighbours(n, edges, a)
        s = gen.sin_angle(pos[a], pos[n1], pos[n2])
        if 1e-12 < s < 1e-2:
            return False
        if s <= 1e-12 and not allow_collinear:
            return False
    return True


def gen_target(rng, ref_pos, placement, mmax=120):
    m = int(rng.integers(1, mmax + 1))
    if rng.random() < 0.5:
        m = int(rng.integers(1, min(mmax, 30) + 1))
    c = ref_pos.mean(axis=0)
    spread = max(0.3, float(np.abs(ref_pos - c).max()))
    if placement == 'around':
        pos = c + rng.normal(size=(m, 3)) * spread
    elif placement == 'inside':
        idx = rng.integers(0, len(ref_pos), m)
        pos = ref_pos[idx] + rng.normal(size=(m, 3)) * 0.05
    elif placement == 'far':
        pos = c + rng.normal(size=3) * 1e3 + rng.normal(size=(m, 3)) * spread
    elif placement == 'on-atoms':
        idx = rng.integers(0, len(ref_pos), m)
        pos = ref_pos[idx].copy()
        off = rng.random(m) < 0.5
        pos[off] += rng.normal(size=(int(off.sum()), 3)) * 0.2
    else:
        pos = c + rng.uniform(-50, 50, 3) + rng.normal(size=(m, 3)) * spread
    return pos


def gen_scale(rng, cls):
    return {'one': 1.0, 'half': 0.5}.get(cls) or float(rng.uniform(0.02, 2.0))


_files = {}


def _scratch_dir():
    """One scratch directory per process for file-based molecules (removed at exit)."""
    if 'dir' not in _files:
        import atexit
        import shutil
        import tempfile
        _files['dir'] = tempfile.mkdtemp(prefix='gmv_emmon_')
        atexit.register(shutil.rmtree, _files['dir'], ignore_errors=True)
    return _files['dir']


def _through_files(rng, name, names, edges, pos, resnames, resids, tag, hostile):
    """The same molecule, but loaded by the library's own parsers from an .itp and a .gro written here: arbitrary atom
    numbers with gaps, bonds split over bonds / constraints / pairs, and (hostile) sections that list atom numbers but
    define no bond - [ settles ], [ exclusions ], [ angles ], [ position_restraints ] - plus comments and preprocessor
    lines.  The bond graph the independent model uses stays the generator's."""
    import os
    from gaddlemaps.components import Molecule
    d = _scratch_dir()
    n = len(names)
    start = int(rng.integers(1, 50))
    nums = [start]
    for _ in range(n - 1):
        nums.append(nums[-1] + int(rng.choice([1, 1, 1, 2, 3])))
    atoms = gen.simple_itp_atoms(names, resnames, resids, numbers=nums)
    secs = {'bonds': [], 'constraints': [], 'pairs': []}
    for a, b in edges:
        if rng.random() < 0.5:
            a, b = b, a
        secs[['bonds', 'bonds', 'constraints', 'pairs'][int(rng.integers(0, 4))] if hostile else 'bonds'].append((nums[a], nums[b]))
    bond_sections = [(k, v) for k, v in secs.items() if v]
    extra = []
    if hostile:
        extra.append(('settles', f'; OW funct doh dhh\n  {nums[0]} 1 0.1 0.16330\n'))
        if n >= 3:
            extra.append(('angles', f'  {nums[0]} {nums[1]} {nums[2]} 2 120.0 25.0\n'))
        if n >= 2:
            extra.append(('exclusions', f'  {nums[0]} {nums[-1]}\n'))
            extra.append(('position_restraints', f'  {nums[-1]} 1 1000 1000 1000\n'))
    itp = os.path.join(d, f'{tag}_{os.getpid()}.itp')
    gro = os.path.join(d, f'{tag}_{os.getpid()}.gro')
    gen.write_itp(itp, name, atoms, bond_sections, rng=rng, decorate=hostile, extra_sections=extra)
    recs = [(int(resids[i]), resnames[i], names[i], i + 1, tuple(float('%.3f' % x) for x in pos[i]), None) for i in range(n)]
    gen.write_gro(gro, name, recs, (50.0, 50.0, 50.0))
    mol = Molecule.from_files(gro, itp)
    object.__setattr__(mol, '_gmv_files', (gro, itp))
    return mol


def build_pair(rng, edges, ref_pos, tgt_pos, name='MOL', multi_res=False, files=False):
    """(reference, target) molecules.  multi_res: several residues, names drawn with repetition so that neighbouring
    residues may share a name (ARG ARG LEU), consecutive numbers.  files: the reference goes through the parsers (its
    coordinates are then the 3-decimal values of the .gro file: use refm.atoms_positions, not ref_pos)."""
    n, m = len(ref_pos), len(tgt_pos)
    if multi_res and n >= 2 and m >= 2:
        nres = int(rng.integers(2, min(n, m, 8) + 1))
        cut_r = sorted(int(x) for x in rng.choice(np.arange(1, n), nres - 1, replace=False))
        cut_t = sorted(int(x) for x in rng.choice(np.arange(1, m), nres - 1, replace=False))
        rid_r = np.searchsorted(cut_r, np.arange(n), side='right') + 1
        rid_t = np.searchsorted(cut_t, np.arange(m), side='right') + 1
        pool = ['RA', 'RB', 'RC', 'ARG', 'LEU']
        rn = [pool[int(k)] for k in rng.integers(0, len(pool), nres)]
        if files:
            # a molecule read from files is recognised by its residue signatures: two residues with the same (name, size) and
            # other atom names are outside the domain of that recognition, so file-based references get distinct names
            rn = [f'R{k}' for k in range(nres)]
        rres, rids = [rn[r - 1] for r in rid_r], [int(r) for r in rid_r]
        tres, tids = [rn[r - 1] for r in rid_t], [int(r) for r in rid_t]
    else:
        rres, rids = [name[:5]] * n, [1] * n
        tres, tids = [name[:5]] * m, [1] * m
    tedges = gen.random_tree(rng, m)
    if files:
        refm = _through_files(rng, name, gen.atom_names(n, 'B'), edges, ref_pos, rres, rids, 'ref', hostile=True)
        object.__setattr__(refm, '_gmv_true_edges', [tuple(e) for e in edges])
    else:
        refm = gen.make_molecule(name, gen.atom_names(n, 'B'), edges, ref_pos, resnames=rres, resids=rids)
    tgtm = gen.make_molecule(name, gen.atom_names(m, 'C'), tedges, tgt_pos, resnames=tres, resids=tids)
    return refm, tgtm


_wp_turn = [0]


def with_positions(mol, pos):
    """Another conformation of the same molecule, as a caller may come by it: a copy (shares the topology object with
    `mol`), a deep copy (its own topology object), or - for molecules that came from files - the same files loaded once
    more (a separate Molecule with its own topology)."""
    _wp_turn[0] += 1
    how = _wp_turn[0] % 3
    c = None
    if how == 1:
        try:
            c = mol.deep_copy()
        except Exception:  # noqa
            c = None
    elif how == 2:
        files = mol.__dict__.get('_gmv_files') if hasattr(mol, '__dict__') else None
        if files is not None:
            from gaddlemaps.components import Molecule
            try:
                c = Molecule.from_files(*files)
                if not (c == mol):
                    c = None
            except Exception:  # noqa
                c = None
    if c is None:
        c = mol.copy()
    c.atoms_positions = np.array(pos, float)
    return c


_disturb_turn = [0]


def disturb(ctx, emap, tgtm, refm=None):
    """Something goes wrong between two good calls and is handled by the caller: a call that the map must refuse (a
    number, the target molecule), or a scale factor no map can have assigned to it (refused -> the caller goes on; taken
    silently as a plain attribute -> the caller puts the old value back).  The next good call is judged as always."""
    _disturb_turn[0] += 1
    how = _disturb_turn[0] % (4 if refm is not None and len(refm) >= 3 else 3)
    try:
        if how == 3:
            # the reference's own name, size, residues and first atoms - the last atom is called something else and the
            # bonds are another molecule's (every atom bonded to the first)
            names = [a.name for a in refm]
            names[-1] = 'ZZ'
            emap(gen.make_molecule(refm.name, names, gen.star(len(refm)), np.array(refm.atoms_positions),
                                   resnames=[a.resname for a in refm], resids=[a.gro_resid for a in refm]))
        elif how == 0:
            emap(2)
        elif how == 1:
            emap(tgtm)
        else:
            keep = emap.scale_factor
            emap.scale_factor = [0, -0.5, float('nan')][(_disturb_turn[0] // 4) % 3]
            emap.scale_factor = keep
    except Exception:  # noqa
        pass
    ctx.hit('recovery:refused-call-or-assignment-then-map-used-again')
