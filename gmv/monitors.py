"""
Contracts on the real functions (record, never raise).  Each installer wraps
the function at every call-time name (see bus.NAMES) so the oracle is
evaluated on directed workloads *and* on every call made deep inside larger
workloads (exchange maps, Monte-Carlo runs, extrapolations).
"""
import math

import numpy as np

from . import bus
from .gen import sin_angle

TOL = 1e-9


# ---------------------------------------------------------------------------
# C17: local frames

def frame_problems(pos_before, pos_after, result, tol=TOL):
    """Oracle for calcule_base.  Returns (class, list of (mechanism, message))."""
    p0, p1, p2 = (np.asarray(p, float) for p in pos_before)
    problems = []
    try:
        (v1, v2, v3), origin = result
        M = np.array([v1, v2, v3], float)
        origin = np.asarray(origin, float)
    except Exception as exc:  # noqa
        return 'malformed', [('frame-malformed-result', f'cannot unpack result: {exc}')]
    d = p2 - p0
    nd = np.linalg.norm(d)
    s = sin_angle(p0, p1, p2)
    coincident = not np.any(p1 - p0)
    if coincident or s <= 1e-12:
        cls = 'collinear'
    elif s >= 1e-6:
        cls = 'generic'
    else:
        cls = 'illconditioned'
    for a, b in zip(pos_before, pos_after):
        if not np.array_equal(np.asarray(a), np.asarray(b)):
            problems.append(('frame-input-modified', 'calcule_base changed its input points'))
            break
    if not np.all(np.isfinite(M)):
        problems.append((f'frame-{cls}-nonfinite', f'non-finite frame {M.tolist()} for points {[p0.tolist(), p1.tolist(), p2.tolist()]}'))
        return cls, problems
    if cls == 'illconditioned':
        return cls, problems
    err = float(np.abs(M @ M.T - np.eye(3)).max())
    if err > tol:
        problems.append((f'frame-{cls}-not-orthonormal',
                         f'|M M^T - I| = {err:.3g} for points {[p0.tolist(), p1.tolist(), p2.tolist()]}'))
    det = float(np.linalg.det(M))
    if abs(det - 1) > tol and err <= tol:
        problems.append((f'frame-{cls}-left-handed', f'det = {det:.6g}'))
    if float(np.abs(M[0] - d / nd).max()) > tol:
        problems.append((f'frame-{cls}-first-vector', f'first vector {M[0].tolist()} is not unit(p2-p0) {(d / nd).tolist()}'))
    if not np.array_equal(origin, p0):
        problems.append(('frame-origin', f'origin {origin.tolist()} is not the first point {p0.tolist()}'))
    if cls == 'generic':
        # third vector normal to the plane of the points
        n1 = abs(float(M[2] @ (p1 - p0))) / np.linalg.norm(p1 - p0)
        n2 = abs(float(M[2] @ d)) / nd
        lim = max(tol, 1e-15 / s)
        if max(n1, n2) > lim:
            problems.append(('frame-generic-normal', f'third vector not normal to the plane: {n1:.3g}, {n2:.3g}'))
    return cls, problems


def install_frame_contract(ctx, record=None):
    def make(real):
        def calcule_base(*args, **kwargs):
            pos, = bus.seen(('pos',), args, kwargs)
            before = [np.array(p, float, copy=True) for p in pos]
            result = real(*args, **kwargs)
            try:
                with bus.neutral():
                    if all(np.all(np.isfinite(b)) for b in before) and np.any(before[2] - before[0]):
                        cls, problems = frame_problems(before, pos, result)
                        ctx.monitor('frame_contract')
                        ctx.hit('frame:' + cls)
                        for mech, msg in problems:
                            ctx.violation(mech, msg, witness={'points': before})
                        if record is not None:
                            record(before, result, cls)
                    else:
                        ctx.count('frame_contract_out_of_domain')
            except Exception as exc:  # noqa  (monitor must not perturb)
                ctx.violation('monitor-error:frame', repr(exc))
            return result
        return calcule_base
    return bus.install('calcule_base', make)


# ---------------------------------------------------------------------------
# C17: rotation matrices

def rotation_problems(axis, theta, R, tol=TOL):
    problems = []
    R = np.asarray(R, float)
    if R.shape != (3, 3) or not np.all(np.isfinite(R)):
        return [('rot-nonfinite', f'rotation_matrix({axis}, {theta}) = {R.tolist()}')]
    a = np.asarray(axis, float)
    na = np.linalg.norm(a)
    e = float(np.abs(R.T @ R - np.eye(3)).max())
    if e > tol:
        problems.append(('rot-not-orthogonal', f'|R^T R - I| = {e:.3g} axis={a.tolist()} theta={theta}'))
    det = float(np.linalg.det(R))
    if abs(det - 1) > tol:
        problems.append(('rot-det', f'det = {det:.9g} axis={a.tolist()} theta={theta}'))
    fix = float(np.linalg.norm(R @ a - a) / na)
    if fix > tol:
        problems.append(('rot-axis-not-fixed', f'|R a - a|/|a| = {fix:.3g} axis={a.tolist()} theta={theta}'))
    tr = float(np.trace(R))
    if abs(tr - (1 + 2 * math.cos(theta))) > tol:
        problems.append(('rot-trace', f'trace {tr:.12g} != 1+2cos(theta) {1 + 2 * math.cos(theta):.12g}'))
    return problems


def install_rotation_contract(ctx):
    def make(real):
        def rotation_matrix(*args, **kwargs):
            axis, theta = bus.seen(('axis', 'theta'), args, kwargs)
            before = np.array(axis, float, copy=True)
            R = real(*args, **kwargs)
            try:
                with bus.neutral():
                    if np.all(np.isfinite(before)) and np.linalg.norm(before) > 0 and np.isfinite(theta):
                        ctx.monitor('rotation_contract')
                        for mech, msg in rotation_problems(before, float(theta), R):
                            ctx.violation(mech, msg, witness={'axis': before, 'theta': float(theta)})
                        if not np.array_equal(np.asarray(axis, float), before):
                            ctx.violation('rot-input-modified', 'rotation_matrix changed its axis argument')
                    else:
                        ctx.count('rotation_contract_out_of_domain')
            except Exception as exc:  # noqa
                ctx.violation('monitor-error:rotation', repr(exc))
            return R
        return rotation_matrix
    return bus.install('rotation_matrix', make)


# ---------------------------------------------------------------------------
# C07: single-atom move

def move_problems(pos_in, bonds_info, atom_index, displ, out, tol=TOL):
    """Oracle for move_mol_atom given the atom and displacement that were
    actually used.  Graph class (tree / cyclic / forest) is derived from
    bonds_info.  Returns (class, problems)."""
    problems = []
    pos_in = np.asarray(pos_in, float)
    out = np.asarray(out, float)
    n = len(pos_in)
    if out.shape != pos_in.shape:
        return 'malformed', [('move-shape', f'output shape {out.shape} != input shape {pos_in.shape}')]
    if not np.all(np.isfinite(out)):
        return 'nonfinite', [('move-nonfinite', 'non-finite output')]
    edges = {}
    for i, lst in bonds_info.items():
        for j, length in lst:
            edges[(min(i, j), max(i, j))] = float(length)
    from .gen import components
    comps = components(n, list(edges))
    comp_of = {}
    for c in comps:
        for v in c:
            comp_of[v] = len(c)
    mycomp = next(c for c in comps if atom_index in c)
    my_edges = [e for e in edges if e[0] in mycomp]
    tree = len(my_edges) == len(mycomp) - 1
    cls = 'tree' if tree else 'cyclic'
    want = pos_in[atom_index] + np.asarray(displ, float)
    if not np.array_equal(out[atom_index], want):
        problems.append(('move-wrong-displacement',
                         f'atom {atom_index} moved by {(out[atom_index] - pos_in[atom_index]).tolist()} instead of {np.asarray(displ).tolist()}'))
    # atoms outside the moved atom's component stay where they were
    for v in range(n):
        if v not in mycomp and not np.array_equal(out[v], pos_in[v]):
            problems.append(('move-touched-other-component', f'atom {v} of another component moved'))
            break
    exact = []
    for (i, j) in my_edges:
        length = edges[(i, j)]
        got = float(np.linalg.norm(out[i] - out[j]))
        if abs(got - length) <= tol * max(length, 1e-300):
            exact.append((i, j))
        elif tree:
            problems.append(('move-bond-not-restored',
                             f'bond {i}-{j}: length {got:.12g} != table {length:.12g} (tree of {len(mycomp)} atoms, moved {atom_index})'))
    if not tree:
        # necessary consequence of "every traversal-tree bond is exact": the
        # exactly restored bonds connect everything reachable from the moved atom
        sub = components(n, exact)
        mine = next(c for c in sub if atom_index in c)
        if set(mine) != set(mycomp):
            problems.append(('move-cyclic-no-exact-spanning-tree',
                             f'exact bonds reach {len(mine)} of {len(mycomp)} atoms from atom {atom_index}'))
    return cls, problems


def install_move_contract(ctx, on_call=None):
    """Contract on move_mol_atom.  When atom_index/displ are not given the
    real function draws them; they are recovered from the output (the moved
    atom is the one that no bond pulled: in[i] + displ) by observing the inner
    find_atom_random_displ call and np.random.randint."""
    state = {'displ': None}

    def make_displ(real):
        def find_atom_random_displ(*args, **kwargs):
            atoms_pos, bonds_info, atom_index = bus.seen(('atoms_pos', 'bonds_info', 'atom_index'), args, kwargs)
            before = np.array(atoms_pos, float, copy=True)
            d = real(*args, **kwargs)
            try:
                with bus.neutral():
                    ctx.monitor('displ_contract')
                    for mech, msg in displ_problems(before, bonds_info, atom_index, d):
                        ctx.violation(mech, msg, witness={'pos': before, 'bonds': {k: list(v) for k, v in bonds_info.items()}, 'atom': atom_index})
                    if not np.array_equal(before, np.asarray(atoms_pos, float)):
                        ctx.violation('displ-input-modified', 'find_atom_random_displ changed atoms_pos')
                    state['displ'] = (int(atom_index), np.array(d, float, copy=True))
            except Exception as exc:  # noqa
                ctx.violation('monitor-error:displ', repr(exc))
            return d
        return find_atom_random_displ

    def make_move(real):
        def move_mol_atom(*args, **kwargs):
            atoms_pos, bonds_info, atom_index, displ = bus.seen(('atoms_pos', 'bonds_info', 'atom_index', 'displ'), args, kwargs)
            before = np.array(atoms_pos, float, copy=True)
            state['displ'] = None
            out = real(*args, **kwargs)
            try:
                with bus.neutral():
                    used_index, used_displ = atom_index, displ
                    if used_displ is None and state['displ'] is not None:
                        used_index, used_displ = state['displ']
                    if not np.array_equal(before, np.asarray(atoms_pos, float)):
                        ctx.violation('move-input-modified', 'move_mol_atom changed its input array')
                    if used_index is None and used_displ is not None:
                        # the caller gave the displacement and left the atom to the function: some atom must have moved by
                        # exactly that vector
                        d = np.asarray(used_displ, float)
                        moved = [j for j in range(len(before)) if np.array_equal(np.asarray(out, float)[j], before[j] + d)]
                        ctx.monitor('move_contract')
                        if not moved:
                            ctx.violation('move-wrong-displacement', 'displacement given, atom index omitted: no atom was displaced by the requested vector',
                                          witness={'pos': before, 'displ': d})
                        else:
                            used_index = moved[0]
                    if used_index is None or used_displ is None:
                        ctx.count('move_contract_unobserved_draw')
                    else:
                        cls, problems = move_problems(before, bonds_info, int(used_index), used_displ, out)
                        ctx.monitor('move_contract')
                        ctx.hit('move:' + cls)
                        for mech, msg in problems:
                            ctx.violation(mech, msg, witness={
                                'pos': before, 'bonds': {k: list(v) for k, v in bonds_info.items()},
                                'atom': int(used_index), 'displ': np.asarray(used_displ)})
                        if on_call is not None:
                            on_call(before, bonds_info, int(used_index), used_displ, out, cls)
            except Exception as exc:  # noqa
                ctx.violation('monitor-error:move', repr(exc))
            return out
        return move_mol_atom
    bus.install('find_atom_random_displ', make_displ)
    return bus.install('move_mol_atom', make_move)


def displ_problems(pos, bonds_info, atom_index, d, tol=TOL):
    problems = []
    d = np.asarray(d, float)
    if d.shape != (3,) or not np.all(np.isfinite(d)):
        return [('displ-nonfinite', f'displacement {d.tolist()} for atom {atom_index}')]
    nb = [j for j, _ in bonds_info[atom_index]]
    nd = np.linalg.norm(d)
    if nd == 0:
        return problems

    def cosang(v):
        nv = np.linalg.norm(v)
        return abs(float(d @ v)) / (nd * nv) if nv > 0 else 0.0
    if len(nb) == 1:
        c = cosang(pos[nb[0]] - pos[atom_index])
        if c > tol:
            problems.append(('displ-not-perpendicular-1', f'|cos| = {c:.3g} to the bond (1 neighbour)'))
    elif len(nb) == 2:
        c = cosang(pos[nb[0]] - pos[nb[1]])
        if c > tol:
            problems.append(('displ-not-perpendicular-2', f'|cos| = {c:.3g} to the line n0-n1 (2 neighbours)'))
    else:
        c1 = cosang(pos[nb[0]] - pos[nb[1]])
        c2 = cosang(pos[nb[0]] - pos[nb[2]])
        if max(c1, c2) > tol:
            problems.append(('displ-not-perpendicular-3', f'|cos| = {c1:.3g}, {c2:.3g} to the plane n0,n1,n2 (>=3 neighbours)'))
    return problems
