"""
Core of the runtime-monitoring harness: context object that collects what the
monitors observed, verdict logic (violated / held / inconclusive), evidence
writer, known-findings handling, replay files.

Nothing here knows about a particular property.
"""
import contextlib
import io
import json
import os
import re
import sys
import time
import traceback
import zlib
from collections import Counter

import numpy as np

VERIF = os.path.dirname(os.path.dirname(os.path.abspath(__file__)))
REPO = os.path.realpath(os.environ.get('VERIF_REPO', '/repo'))

EXIT_HELD, EXIT_VIOLATED, EXIT_INCONCLUSIVE = 0, 1, 2


def import_repo():
    """Put the tree under test first on sys.path and check that is what got
    imported (the /venv install is editable; sys.path[0] wins over it)."""
    if sys.path[0] != REPO:
        sys.path.insert(0, REPO)
    import gaddlemaps
    where = os.path.realpath(gaddlemaps.__file__)
    if not where.startswith(REPO + os.sep):
        raise RuntimeError(f'gaddlemaps imported from {where}, not from {REPO}')
    return gaddlemaps


def jsonable(obj, depth=0):
    """Convert numpy/sets/tuples to plain JSON values."""
    if depth > 12:
        return repr(obj)
    if isinstance(obj, (str, bool)) or obj is None:
        return obj
    if isinstance(obj, (int, np.integer)):
        return int(obj)
    if isinstance(obj, (float, np.floating)):
        f = float(obj)
        if f != f or f in (float('inf'), float('-inf')):
            return repr(f)
        return f
    if isinstance(obj, np.ndarray):
        return jsonable(obj.tolist(), depth + 1)
    if isinstance(obj, dict):
        return {str(k): jsonable(v, depth + 1) for k, v in obj.items()}
    if isinstance(obj, (list, tuple, set, frozenset)):
        if isinstance(obj, (set, frozenset)):
            try:
                obj = sorted(obj)
            except TypeError:
                obj = list(obj)
        return [jsonable(v, depth + 1) for v in obj]
    return repr(obj)


def _token(t):
    if isinstance(t, (int, np.integer)):
        return int(t) & 0xFFFFFFFF
    return zlib.crc32(str(t).encode()) & 0xFFFFFFFF


class TerminalLike(io.StringIO):
    """A swallowing stdout that says it is a terminal (as in an interactive session)."""

    def isatty(self):
        return True


@contextlib.contextmanager
def quiet(tty=False):
    """Swallow the library's progress chatter (it prints from the MC loop).  With tty=True the stand-in for stdout
    answers isatty() like a terminal does: what the library computes does not depend on where its chatter goes."""
    old = sys.stdout
    sys.stdout = TerminalLike() if tty else io.StringIO()
    try:
        yield
    finally:
        sys.stdout = old


@contextlib.contextmanager
def other_stdout():
    """The other kind of stdout than the current one (terminal-like <-> captured) for the duration of the block."""
    try:
        now = bool(sys.stdout.isatty())
    except Exception:  # noqa
        now = False
    with quiet(tty=not now):
        yield


SETTINGS = ('default', 'warnings-as-errors', 'fp-raise', 'fp-ignore')
_settings_turn = [0]


@contextlib.contextmanager
def settings(kind):
    """Global settings a caller may legitimately have chosen around a library call: Python warnings turned into
    exceptions, NumPy floating-point errors raised or ignored.  What the statements promise does not depend on them."""
    import warnings
    if kind == 'default':
        yield
    elif kind == 'warnings-as-errors':
        with warnings.catch_warnings():
            warnings.simplefilter('error')
            yield
    elif kind == 'fp-raise':
        with np.errstate(all='raise'):
            yield
    elif kind == 'fp-ignore':
        with np.errstate(all='ignore'):
            yield
    else:
        raise ValueError(kind)


def next_settings(ctx, allowed=SETTINGS):
    """Settings in rotation (every kind is reached whatever the seed)."""
    _settings_turn[0] += 1
    kind = allowed[_settings_turn[0] % len(allowed)]
    ctx.hit('settings:' + kind)
    return kind


def under(ctx, kind, fn, *args, retry=True, **kwargs):
    """Call fn under the caller settings `kind`.  When the call is refused there with a Warning or a FloatingPointError
    (which only exists because of those settings) and retry is set, the caller does what callers do: it catches the
    exception and calls again, on the same objects, with default settings - and that second call is the one whose result
    is judged.  With retry=False the exception propagates (sites where the unchanged library is known to stay silent:
    being refused there IS the observation)."""
    import warnings
    try:
        with settings(kind):
            return fn(*args, **kwargs)
    except (Warning, FloatingPointError) as exc:
        if kind == 'default' or not retry:
            raise
        ctx.count(f'refused_under_{kind}:{type(exc).__name__}')
        ctx.hit('recovery:refused-under-caller-settings-then-called-again')
        with warnings.catch_warnings():
            warnings.simplefilter('default')
            return fn(*args, **kwargs)


class Ctx:
    """What one run (or one shard of a run) observed."""

    MAX_SAMPLES = 6

    def __init__(self, prop, tier, seed, shard=(0, 1)):
        self.prop = prop
        self.tier = tier
        self.seed = int(seed)
        self.shard = shard
        self.t0 = time.time()
        self.counters = Counter()     # anything counted
        self.classes = Counter()      # input classes hit
        self.monitors = Counter()     # evaluations per monitor/oracle
        self.distinct = set()         # keys of distinct non-trivial cases
        self.samples = []
        self.violations = {}          # mechanism -> dict(count, message, case, witness)
        self.inconclusive = []        # reasons
        self.notes = []               # free text that goes to the evidence
        self.extra = {}               # extra coverage keys (merged by update)
        self.lines = {}               # anchored function -> {'total': [...], 'hit': set()}
        self.current_case = None

    # ---- randomness ---------------------------------------------------
    def rng(self, *tokens):
        return np.random.default_rng([self.seed, _token(self.prop)] +
                                     [_token(t) for t in tokens])

    def libseed(self, *tokens):
        """Seed for the library's global numpy stream (np.random.seed)."""
        return int(self.rng('lib', *tokens).integers(0, 2**31 - 1))

    # ---- recording ----------------------------------------------------
    def count(self, name, n=1):
        self.counters[name] += n

    def hit(self, cls, n=1):
        self.classes[cls] += n

    def monitor(self, name, n=1):
        self.monitors[name] += n

    def nontrivial(self, key):
        self.distinct.add(key if isinstance(key, str) else repr(key))

    def sample(self, obj, force=False):
        if force or len(self.samples) < self.MAX_SAMPLES:
            self.samples.append(jsonable(obj))

    def note(self, text):
        if text not in self.notes:
            self.notes.append(text)

    def violation(self, mechanism, message, witness=None, case=None):
        """Record a refuting observation.  `mechanism` is the classifier's
        verdict on *what kind* of failure this is (used for known findings and
        for de-duplication); the first witness of each mechanism is kept."""
        v = self.violations.get(mechanism)
        if v is None:
            self.violations[mechanism] = {
                'count': 1, 'message': message + (' [interpreter without assert statements: PYTHONOPTIMIZE=1]' if sys.flags.optimize else ''),
                'case': jsonable(case if case is not None else self.current_case),
                'witness': jsonable(witness), 'optimize': int(sys.flags.optimize), 'tty': bool(getattr(self, 'case_tty', False))}
        else:
            v['count'] += 1

    def inconclusive_because(self, reason):
        if reason not in self.inconclusive:
            self.inconclusive.append(reason)

    # ---- shard transport ----------------------------------------------
    def dump(self):
        return {
            'counters': dict(self.counters), 'classes': dict(self.classes),
            'monitors': dict(self.monitors), 'distinct': sorted(self.distinct),
            'samples': self.samples, 'violations': self.violations,
            'inconclusive': self.inconclusive, 'notes': self.notes,
            'extra': jsonable(self.extra),
            'lines': {k: {'total': sorted(v['total']), 'hit': sorted(v['hit'])}
                      for k, v in self.lines.items()},
        }

    def merge(self, d):
        self.counters.update(d['counters'])
        self.classes.update(d['classes'])
        self.monitors.update(d['monitors'])
        self.distinct.update(d['distinct'])
        for s in d['samples']:
            if len(self.samples) < self.MAX_SAMPLES:
                self.samples.append(s)
        for mech, v in d['violations'].items():
            mine = self.violations.get(mech)
            if mine is None:
                self.violations[mech] = v
            else:
                mine['count'] += v['count']
        for r in d['inconclusive']:
            self.inconclusive_because(r)
        for n in d['notes']:
            self.note(n)
        for k, v in d.get('extra', {}).items():
            merge_extra(self.extra, k, v)
        for k, v in d.get('lines', {}).items():
            self.add_lines(k, v['total'], v['hit'])

    def add_lines(self, label, total, hit):
        mine = self.lines.setdefault(label, {'total': set(), 'hit': set()})
        mine['total'] = set(mine['total']) | set(total)
        mine['hit'] = set(mine['hit']) | set(hit)

    def take_coverage(self, cov):
        """Pull the observations of a cover.Coverage object."""
        for code, label in cov.codes.items():
            first = code.co_firstlineno
            total = {l for _, _, l in code.co_lines() if l is not None and l != first}
            self.add_lines(label, total, cov.hit[label] & total)
        for label in getattr(cov, 'missing', []):
            self.note(f'anchored function {label} does not exist in this tree (renamed or removed): its line coverage is not reported')


def merge_extra(extra, k, v):
    """Extra coverage keys: numbers add, dicts merge recursively, lists keep
    the first few, anything else: first value wins."""
    if k not in extra:
        extra[k] = v
    elif isinstance(v, bool):
        extra[k] = extra[k] and v
    elif isinstance(v, (int, float)) and isinstance(extra[k], (int, float)):
        extra[k] += v
    elif isinstance(v, dict) and isinstance(extra[k], dict):
        for kk, vv in v.items():
            merge_extra(extra[k], kk, vv)
    elif isinstance(v, list) and isinstance(extra[k], list):
        for item in v:
            if item not in extra[k] and len(extra[k]) < 40:
                extra[k].append(item)


# ---------------------------------------------------------------------------
# known findings

def load_known_findings():
    path = os.path.join(VERIF, 'known_findings.json')
    if not os.path.exists(path):
        return []
    with open(path) as f:
        return json.load(f).get('findings', [])


def open_finding_for(prop, mechanism, findings):
    for f in findings:
        if (f.get('status') == 'open' and f.get('property') == prop
                and f.get('key') == mechanism):
            return f
    return None


# ---------------------------------------------------------------------------
# evidence

def check_evidence_shape(ev):
    """Minimal structural validation against EVIDENCE.schema.json (jsonschema
    is not installed beside the repository's interpreter)."""
    problems = []
    for k in ('property_id', 'tier', 'seed', 'level', 'coverage', 'wall_s'):
        if k not in ev:
            problems.append(f'missing {k}')
    if ev.get('tier') not in ('quick', 'thorough'):
        problems.append('tier')
    if not isinstance(ev.get('seed'), int):
        problems.append('seed')
    cov = ev.get('coverage', {})
    if ev.get('level') in ('exploration', 'fault_enumeration'):
        if not (isinstance(cov.get('evaluations'), int) and cov['evaluations'] >= 1):
            problems.append('evaluations')
        if not (isinstance(cov.get('distinct_nontrivial'), int)
                and cov['distinct_nontrivial'] >= 2):
            problems.append('distinct_nontrivial')
        if not isinstance(cov.get('rule'), str):
            problems.append('rule')
        if not (isinstance(cov.get('samples'), list) and cov['samples']):
            problems.append('samples')
    return problems


def finish(ctx, mod, write_evidence=True):
    """Decide the verdict, write evidence and replay files, print the lines the
    interface asks for, return the exit code."""
    findings = load_known_findings()
    wall = time.time() - ctx.t0
    evaluations = int(ctx.counters.get('evaluations', 0))
    if evaluations == 0:
        ctx.inconclusive_because('no case was evaluated')
    for name in getattr(mod, 'REQUIRED_MONITORS', ()):
        if ctx.monitors.get(name, 0) == 0:
            ctx.inconclusive_because(f'deciding monitor {name} was never evaluated')
    required = getattr(mod, 'REQUIRED_CLASSES', {})
    required = required.get(ctx.tier, required.get('all', ())) if isinstance(required, dict) else required
    if ctx.extra.get('asserts_stripped_sample'):
        required = tuple(required) + ('interpreter:assert-statements-stripped',)
    for name in required:
        if ctx.classes.get(name, 0) == 0:
            ctx.inconclusive_because(f'input class {name} was never reached')

    new, known = [], []
    for mech, v in sorted(ctx.violations.items()):
        f = open_finding_for(ctx.prop, mech, findings)
        (known if f else new).append((mech, v, f))

    lines = []
    rdir = os.path.join(VERIF, 'replays', ctx.prop)
    for mech, v, f in known:
        lines.append(f"KNOWN-FINDING: property={ctx.prop} {mech}: {f.get('what', v['message'])} "
                     f"(observed {v['count']}x in this run)")
    for mech, v, _ in new:
        os.makedirs(rdir, exist_ok=True)
        fname = re.sub(r'[^A-Za-z0-9_.-]+', '_', mech)[:80] + '.json'
        rpath = os.path.join(rdir, fname)
        with open(rpath, 'w') as fh:
            json.dump({'property': ctx.prop, 'mechanism': mech, 'message': v['message'],
                       'count_in_run': v['count'], 'seed': ctx.seed, 'tier': ctx.tier,
                       'case': v['case'], 'witness': v['witness'], 'optimize': v.get('optimize', 0), 'tty': v.get('tty', False)}, fh, indent=1)
        rel = os.path.relpath(rpath, VERIF)
        lines.append(f"VIOLATION property={ctx.prop} replay={rel} mechanism={mech} "
                     f"count={v['count']} :: {v['message'][:300]}")

    if new:
        verdict, code = 'violated', EXIT_VIOLATED
    elif ctx.inconclusive:
        verdict, code = 'inconclusive', EXIT_INCONCLUSIVE
    else:
        verdict, code = 'held', EXIT_HELD

    coverage = {
        'evaluations': evaluations,
        'distinct_nontrivial': len(ctx.distinct),
        'rule': getattr(mod, 'RULE', ''),
        'samples': ctx.samples,
        'exhaustive': bool(ctx.extra.pop('exhaustive', False)),
        'monitor_evaluations': dict(sorted(ctx.monitors.items())),
        'input_classes_hit': dict(sorted(ctx.classes.items())),
        'counters': dict(sorted(ctx.counters.items())),
        'verdict': verdict,
        'inconclusive_reasons': ctx.inconclusive,
        'known_findings_observed': [m for m, _, _ in known],
        'violation_mechanisms': {m: v['count'] for m, v, _ in new},
        'notes': ctx.notes,
        'repo': REPO,
    }
    for k, v in ctx.extra.items():
        coverage.setdefault(k, v)
    if ctx.lines:
        coverage['anchored_functions'] = {
            k: {'lines_total': len(v['total']), 'lines_hit': len(set(v['hit']) & set(v['total'])),
                'lines_missed': sorted(set(v['total']) - set(v['hit']))[:25]}
            for k, v in sorted(ctx.lines.items())}
    ev = {
        'property_id': ctx.prop, 'tier': ctx.tier, 'seed': ctx.seed,
        'level': getattr(mod, 'LEVEL', 'exploration'),
        'coverage': jsonable(coverage),
        'assumptions': list(getattr(mod, 'ASSUMPTIONS', [])),
        'wall_s': round(wall, 3),
        'violations': sum(v['count'] for _, v, _ in new),
    }
    if write_evidence:
        problems = check_evidence_shape(ev)
        if problems and not new:
            ctx.inconclusive_because('evidence would not validate: ' + ', '.join(problems))
            if code == EXIT_HELD:
                verdict, code = 'inconclusive', EXIT_INCONCLUSIVE
                ev['coverage']['verdict'] = verdict
                ev['coverage']['inconclusive_reasons'] = ctx.inconclusive
        os.makedirs(os.path.join(VERIF, 'evidence'), exist_ok=True)
        tmp = os.path.join(VERIF, 'evidence', f'.{ctx.prop}.json.tmp')
        with open(tmp, 'w') as fh:
            json.dump(ev, fh, indent=1)
        os.replace(tmp, os.path.join(VERIF, 'evidence', f'{ctx.prop}.json'))

    for line in lines:
        print(line)
    if code == EXIT_INCONCLUSIVE:
        for r in ctx.inconclusive:
            print(f'INCONCLUSIVE property={ctx.prop} reason={r}')
    mon = ', '.join(f'{k}={v}' for k, v in sorted(ctx.monitors.items()))
    print(f'{ctx.prop} {ctx.tier} seed={ctx.seed}: {verdict}; evaluations={evaluations} '
          f'distinct_nontrivial={len(ctx.distinct)} monitors[{mon}] wall={wall:.1f}s')
    return code


def format_exc():
    return traceback.format_exc(limit=12)
