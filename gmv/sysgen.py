"""
Generated simulation systems (ground truth for C05, C10, C11, C20): species with
topologies, optional end-resolution partners, and coordinate files assembled
from whole molecules in a chosen order.  Files are written by gen.write_gro /
gen.write_itp (independent of the library).
"""
import os

import numpy as np

from . import gen


def r3(x):
    return float('%.3f' % x)


def make_species(rng, name, sizes, resnames=None, prefix='B', kind=None, bond=(0.25, 0.45)):
    """A species whose residues have the given sizes.  Atom names are unique
    inside the species.  Bond graph connected (random tree or graph)."""
    n = int(sum(sizes))
    resnames = resnames or [name[:5]] * len(sizes)
    atoms = []
    k = 0
    for r, (size, rn) in enumerate(zip(sizes, resnames)):
        for a in range(size):
            atoms.append((f'{prefix}{k}'[:5], rn, r + 1))
            k += 1
    if n == 1:
        edges = []
    elif kind == 'chain':
        edges = gen.chain(n)
    elif kind == 'cyclic' and n >= 3:
        edges = gen.random_connected_graph(rng, n, 'cyclic')[1]
    else:
        edges = gen.random_tree(rng, n)
    pos = gen.embed_graph(rng, n, edges, bond=bond) if n > 1 else np.zeros((1, 3))
    pos = pos - pos.mean(axis=0)
    return {'name': name, 'atoms': atoms, 'bonds': edges, 'pos': pos, 'sizes': list(sizes),
            'resnames': list(resnames)}


def species_signature(sp):
    return [(rn, s) for rn, s in zip(sp['resnames'], sp['sizes'])]


def write_species_itp(sp, path, rng=None, decorate=False, start=1):
    names = [a[0] for a in sp['atoms']]
    atoms = gen.simple_itp_atoms(names, [a[1] for a in sp['atoms']], [a[2] for a in sp['atoms']],
                                 numbers=[start + i for i in range(len(names))])
    secs = [('bonds', [(start + a, start + b) for a, b in sp['bonds']])] if sp['bonds'] else []
    gen.write_itp(path, sp['name'], atoms, secs, rng=rng, decorate=decorate)


def species_records(sp, pos, resid0, atomid0, vel=None, numbers=None):
    """numbers: residue number of each residue of the instance (default: consecutive from resid0)."""
    recs = []
    for i, (nm, rn, rid) in enumerate(sp['atoms']):
        xyz = tuple(r3(x) for x in pos[i])
        v = None if vel is None else tuple(float('%.4f' % x) for x in vel[i])
        num = (resid0 + rid - 1) if numbers is None else numbers[rid - 1]
        recs.append((num % 100000, rn, nm, (atomid0 + i) % 100000, xyz, v))
    return recs


def write_species_gro(sp, path, rng=None, pos=None, box=(5.0, 5.0, 5.0), title=None):
    pos = sp['pos'] + 2.5 if pos is None else pos
    recs = species_records(sp, pos, 1, 1)
    gen.write_gro(path, title or f'{sp["name"]} single molecule', recs, box)


def place_instance(rng, sp, box, mode='rigid+jitter', index=0):
    """Coordinates of one instance inside the box."""
    L = np.asarray(box, float)
    if L.ndim == 2:
        L = np.diag(L)
    if mode == 'unique-grid':
        # coordinates that identify the atom: distinct triples on a 0.01 grid
        base = index * 50
        n = len(sp['atoms'])
        ks = np.arange(base, base + n)
        return np.stack([(ks % 1000) * 0.01, (ks // 1000) * 0.01 + 0.005, np.full(n, 0.5) + (ks % 7) * 0.1], axis=1)
    R = gen.random_rotation(rng)
    centre = rng.uniform(0.15, 0.85, 3) * L
    pos = sp['pos'] @ R.T
    if 'jitter' in mode and len(pos) > 1:
        pos = pos + rng.normal(size=pos.shape) * 0.02
    return pos + centre


def build_system(rng, species, sequence, box=(8.0, 8.0, 8.0), mode='rigid+jitter', with_vel=False,
                 resid_start=1, atomid_start=1, resid_mode='consecutive'):
    """sequence: list of species keys (keys of the dict `species`).  Returns
    (records, instances); instances: list of dict(species, first_atom, n_atoms,
    resids, coords (rounded as in the file), atomids)."""
    records, instances = [], []
    resid, atomid = resid_start, atomid_start
    for idx, key in enumerate(sequence):
        sp = species[key]
        pos = place_instance(rng, sp, box, mode, index=idx)
        vel = rng.normal(size=pos.shape) * 0.3 if with_vel else None
        nres = len(sp['sizes'])
        if resid_mode == 'gaps':
            # residue numbers with gaps, and now and then a restart at a small number (as after the five-digit wrap
            # or in files assembled from pieces); neighbouring residues always differ in number
            numbers = []
            for k in range(nres):
                if numbers or records:
                    resid = (resid + int(rng.integers(1, 5))) if rng.random() < 0.85 else int(rng.integers(1, 4)) + (resid % 2)
                    if records and not numbers and resid == records[-1][0]:
                        resid += 1
                    if numbers and resid == numbers[-1]:
                        resid += 1
                numbers.append(resid)
        else:
            numbers = [resid + k for k in range(nres)]
        recs = species_records(sp, pos, resid, atomid, vel, numbers=numbers)
        instances.append({'species': key, 'name': sp['name'], 'first_atom': len(records), 'n_atoms': len(recs),
                          'resids': [x % 100000 for x in numbers],
                          'coords': np.array([r[4] for r in recs]), 'atomids': [r[3] for r in recs],
                          'vel': None if vel is None else np.array([r[5] for r in recs])})
        records += recs
        resid = numbers[-1] + 1 if resid_mode != 'gaps' else numbers[-1]
        atomid += len(recs)
    return records, instances
