"""
Generated two-resolution "worlds": a directory with a system .gro in the start
resolution, one start topology per species, and for some species the end
resolution files (.gro with one molecule + .itp).  Used by C03 (embedded), C05,
C10 and C20.  Everything is written by the independent writers of gen.py.
"""
import os

import numpy as np

from . import gen, sysgen

RESN = ['ALA', 'GLY', 'LYS', 'TRP', 'SER', 'VAL']


def make_world(rng, root, nspecies=None, ninst=(1, 12), order='random', box_kind='rect', with_solvent=True,
               with_vel=False, title=None, end_for=None, multi_res_prob=0.35, small_prob=0.3,
               unique_grid=False, sizes_hint=None, resid_mode='consecutive', end_extra=None, counts=None, coarsen=False, homopolymer_prob=0.0, multi_res_max=4, force_small=()):
    """Returns a dict describing the world (see keys below)."""
    os.makedirs(root, exist_ok=True)
    counts_in = counts
    nspecies = nspecies or int(rng.integers(2, 5))
    species, end_species = {}, {}
    used_sig = set()
    for k in range(nspecies):
        name = f'SP{"ABCDEFGH"[k]}'
        for _ in range(100):
            r = rng.random()
            if sizes_hint is not None:
                sizes = list(sizes_hint[k])
            elif r < small_prob or name in force_small:
                sizes = [int(rng.integers(1, 3))]                       # 1- or 2-bead species
            elif r < small_prob + multi_res_prob:
                sizes = [int(rng.integers(1, 5)) for _ in range(int(rng.integers(2, multi_res_max + 1)))]
            else:
                sizes = [int(rng.integers(3, 9))]
            homo = sizes_hint is None and rng.random() < homopolymer_prob
            if homo:
                # a homopolymer: the same residue (name, size, atom names) two to four times - its residue sequence
                # overlaps itself under a shift, and neighbouring molecules continue each other's pattern
                sizes = [int(rng.integers(1, 4))] * int(rng.integers(2, 5))
            if len(sizes) > 1 and homo:
                resn = [name[:3] + 'P'] * len(sizes)
            elif len(sizes) > 1:
                # distinct residue names inside a species: two residues with equal (name, size) but
                # different atom names are outside the domain of the recognition algorithm
                resn = [RESN[int(i)] for i in rng.choice(len(RESN), len(sizes), replace=False)]
            else:
                resn = [name[:4]]
            sig = {(rn, s) for rn, s in zip(resn, sizes)}
            # end resolution: same residues, strictly more atoms each
            esizes = [s + (int(rng.integers(1, 6)) if end_extra is None else int(end_extra)) for s in sizes]
            if homo:
                esizes = [esizes[0]] * len(sizes)
            esig = {(rn, s) for rn, s in zip(resn, esizes)}
            if not (sig & used_sig) and not (esig & used_sig) and not (sig & esig):
                used_sig |= sig | esig
                break
        else:
            raise RuntimeError('could not make distinct signatures')
        species[name] = sysgen.make_species(rng, name, sizes, resn, prefix='B')
        end = sysgen.make_species(rng, name, esizes, resn, prefix='C', bond=(0.09, 0.16))
        if homo:
            for sp_, size_ in ((species[name], sizes[0]), (end, esizes[0])):
                sp_['atoms'] = [(sp_['atoms'][j % size_][0], rn_, rid_) for j, (_, rn_, rid_) in enumerate(sp_['atoms'])]
            species[name]['homopolymer'] = True
        # a few hydrogens in the end resolution
        atoms = []
        for i, (nm, rn, rid) in enumerate(end['atoms']):
            if i > 0 and rng.random() < 0.3 and not homo:
                nm = f'H{i}'
            atoms.append((nm, rn, rid))
        end['atoms'] = atoms
        end_species[name] = end
    if coarsen:
        # mapping towards the coarser resolution: the system holds the larger molecules, the end molecules are the smaller
        # ones (down to a single bead)
        species, end_species = end_species, species
    if with_solvent:
        species['W'] = sysgen.make_species(rng, 'W', [1], ['W'], prefix='W')
    names = [n for n in species if n != 'W']
    if end_for is None:
        k = int(rng.integers(1, len(names) + 1))
        end_for = sorted(rng.choice(names, size=k, replace=False).tolist())
    # sequence of instances
    counts = {n: int(rng.integers(ninst[0], ninst[1] + 1)) if not (counts_in and n in counts_in) else int(counts_in[n]) for n in species}
    seq = []
    if order == 'blocks':
        for n in rng.permutation(list(species)):
            seq += [str(n)] * counts[str(n)]
    elif order == 'alternating':
        pool = {n: c for n, c in counts.items()}
        while any(pool.values()):
            for n in list(pool):
                if pool[n]:
                    seq.append(n)
                    pool[n] -= 1
    else:
        for n, c in counts.items():
            seq += [n] * c
        seq = [str(x) for x in rng.permutation(seq)]
    L = rng.uniform(6, 12, 3)
    if box_kind == 'triclinic':
        box = np.diag(L)
        box[1, 0], box[2, 0], box[2, 1] = rng.uniform(-0.3, 0.3, 3) * L[[0, 0, 1]]
    else:
        box = L
    records, instances = sysgen.build_system(rng, species, seq, box=L, with_vel=with_vel,
                                             mode='unique-grid' if unique_grid else 'rigid+jitter',
                                             resid_start=int(rng.integers(1, 40)), resid_mode=resid_mode)
    title = title if title is not None else ['generated world', 'Mixed system, t= 10.0', ' padded title ', 'l\u00edquido i\u00f3nico, 42.7 \u00c5',
                                               '\u6c34 + \u03b1-helix'][int(rng.integers(0, 5))]
    sys_gro = os.path.join(root, 'system.gro')
    gen.write_gro(sys_gro, title, records, box)
    files = {}
    for n in names:
        p = os.path.join(root, f'{n}_start.itp')
        sysgen.write_species_itp(species[n], p)
        files[n] = {'top_start': p}
        if n in end_for:
            g = os.path.join(root, f'{n}_end.gro')
            t = os.path.join(root, f'{n}_end.itp')
            sysgen.write_species_gro(end_species[n], g)
            sysgen.write_species_itp(end_species[n], t)
            files[n].update({'gro_end': g, 'top_end': t})
    return {'root': root, 'species': species, 'end_species': end_species, 'end_for': list(end_for), 'sequence': seq,
            'instances': instances, 'records': records, 'box': np.asarray(box), 'title': title, 'system_gro': sys_gro,
            'files': files, 'with_vel': with_vel}


def run_pipeline(world, scale=0.5, steps_factor=5, seed=0, out=None, options=None, load=None):
    """The library workflow: Manager.from_files -> attach ends -> align ->
    exchange maps -> extrapolate.  Returns (manager, out_path)."""
    import gaddlemaps
    from gaddlemaps import Manager, Alignment
    from gaddlemaps.components import Molecule
    names = load if load is not None else [n for n in world['files']]
    np.random.seed(seed)
    old = Alignment.STEPS_FACTOR
    Alignment.STEPS_FACTOR = steps_factor
    try:
        man = Manager.from_files(world['system_gro'], *[world['files'][n]['top_start'] for n in names])
        for n in names:
            f = world['files'][n]
            if 'gro_end' in f:
                man.add_end_molecule(Molecule.from_files(f['gro_end'], f['top_end']))
        man.align_molecules(**(options or {}))
        man.calculate_exchange_maps(scale_factor=scale)
        out = out or os.path.join(world['root'], 'mapped.gro')
        man.extrapolate_system(out)
    finally:
        Alignment.STEPS_FACTOR = old
    return man, out
