"""
C16 - ItpFile read -> write -> read loses no section, line or comment.

Deciding monitor: the independent tokeniser ref.ref_itp_tokens applied to the
original file and to the file written back by the library (per section, in
order of first appearance, content tokens + comment texts + preprocessor lines
in their relative order), the library's own re-parse (read_topology on both),
generator truth for generated files, and a second round trip.
"""
import os
import shutil
import tempfile

from .. import carrier, cover, itpspec, ref

LEVEL = 'exploration'
JOBS = {'quick': 2, 'thorough': 16}
REQUIRED_MONITORS = ('library_view_of_written_file', 'tokens_original_vs_written', 'second_round_trip', 'topology_original_vs_written', 'written_onto_source', 'written_through_copy')
REQUIRED_CLASSES = ('size:over-64KiB', 'size:over-1MiB', 'size:over-2MiB', 'shipped', 'repeated-section', 'trailing:empty', 'trailing:multiple', 'trailing:hash', 'trailing:multiple-last-empty',
                    'header-text', 'decorated', 'no-final-newline', 'shipped-with-repeated-section', 'line-endings:dos',
                    'carrier:handle', 'carrier:handle-newline-untranslated', 'carrier:handle-relative-then-chdir', 'carrier:relative-path',
                    'recovery:failed-write-then-written-elsewhere')
RULE = ('all shipped topologies + generated topology texts (section order, repeated section names, trailing comment '
        'styles none/single/empty/multiple/#-leading/no-blank, comment-only, blank and preprocessor lines, header text, '
        'missing final newline). Non-trivial: the file has at least one comment or preprocessor line or a repeated '
        'section. distinct = distinct file contents (by class signature and size bucket; shipped files by name)')
ASSUMPTIONS = [
    'blank lines and empty comments (";" alone) are not compared; comment text is compared after stripping blanks',
    'preprocessor lines start in column 0; section headers carry no trailing text',
    'sections with the same name are compared merged, in order of first appearance (what the statement asks)',
]
_cov = cover.Coverage()
_tmp = {}


def setup(ctx):
    import gaddlemaps.parsers._itp_parse as I
    for label, get in (('ItpFile.__init__', lambda: I.ItpFile.__init__), ('ItpFile.write', lambda: I.ItpFile.write),
                       ('ItpLine.line', lambda: I.ItpLine.line.fget),
                       ('ItpLine.parse_itp_line', lambda: I.ItpLine.parse_itp_line.__func__),
                       ('ItpSection.__str__', lambda: I.ItpSection.__str__)):
        try:
            _cov.watch(get(), label)
        except AttributeError:
            _cov.missing.append(label)     # renamed/removed by a refactoring: coverage of it is not reported
    _cov.start()
    _tmp['dir'] = tempfile.mkdtemp(prefix='gmv_c16_')


def teardown(ctx):
    _cov.stop()
    ctx.take_coverage(_cov)
    shutil.rmtree(_tmp['dir'], ignore_errors=True)


def shipped_itp():
    import gaddlemaps
    d = os.path.join(os.path.dirname(gaddlemaps.__file__), 'data')
    return [os.path.join(d, f) for f in sorted(os.listdir(d)) if f.endswith('.itp')]


def cases(ctx):
    for p in shipped_itp():
        yield {'kind': 'shipped', 'file': os.path.basename(p)}
    n = 300 if ctx.tier == 'quick' else 300000
    for i in range(n):
        yield {'kind': 'gen', 'i': i}


def diff_tokens(a, b):
    """First difference between two token structures (header, sections)."""
    (ha, sa), (hb, sb) = a, b
    if ha != hb:
        k = next((i for i, (x, y) in enumerate(zip(ha, hb)) if x != y), min(len(ha), len(hb)))
        return 'header', f'header item {k}: {ha[k] if k < len(ha) else None!r} -> {hb[k] if k < len(hb) else None!r}'
    na, nb = [n for n, _ in sa], [n for n, _ in sb]
    if na != nb:
        return 'section-list', f'sections {na} -> {nb}'
    for (name, ia), (_, ib) in zip(sa, sb):
        if ia != ib:
            k = next((i for i, (x, y) in enumerate(zip(ia, ib)) if x != y), min(len(ia), len(ib)))
            x = ia[k] if k < len(ia) else None
            y = ib[k] if k < len(ib) else None
            return classify_item_diff(x, y, len(ia), len(ib)), f'section [{name}] item {k} of {len(ia)}->{len(ib)}: {x!r} -> {y!r}'
    return None


def classify_item_diff(x, y, la, lb):
    """Mechanism of the first differing item (by what the original line looked like)."""
    if x is None:
        return 'lines-added'
    if x[0] == 'content':
        if x[2] == '' and lb < la:
            return 'content-line-fused-or-lost'
        if x[2].startswith('#'):
            return 'content-with-hash-comment-lost'
        if lb < la:
            return 'content-line-fused-or-lost'
        return 'content-line-changed'
    if x[0] == 'comment':
        if x[1].startswith('#'):
            return 'commented-directive-became-live'
        return 'comment-line-changed'
    return 'preprocessor-line-changed'


_turn = [0]


def _decoy():
    p = os.path.join(_tmp['dir'], f'decoy{os.getpid()}.itp')
    if not os.path.exists(p):
        with open(p, 'w') as fh:
            fh.write('; a decoy\n[ moleculetype ]\nDECOY 1\n\n[ atoms ]\n1 X 1 DEC D1 1 0.0\n')
    return p


def roundtrip(ctx, path, label, truth=None, classes=()):
    from gaddlemaps.parsers import ItpFile, read_topology
    w = {'file': label, 'classes': sorted(classes)}
    rep = 'repeated' if any(c.startswith('repeated-section') for c in classes) else 'plain'
    out1 = os.path.join(_tmp['dir'], f'o1_{os.getpid()}.itp')
    out2 = os.path.join(_tmp['dir'], f'o2_{os.getpid()}.itp')
    try:
        # the file reaches the reader as a path, a relative name or an open handle (see carrier.py)
        kind = carrier.next_kind(ctx)
        w['carrier'] = kind
        with carrier.carried(path, kind, decoy=_decoy()) as f:
            itp = ItpFile(f)
        if _turn[0] % 2:
            # a first attempt to write fails (the directory does not exist, the path is a directory) and is handled by the
            # caller, who then writes the same object where it can
            ctx.hit('recovery:failed-write-then-written-elsewhere')
            for bad_target in (os.path.join(_tmp['dir'], 'no-such-directory', 'x.itp'), _tmp['dir']):
                try:
                    itp.write(bad_target)
                except Exception:  # noqa
                    pass
        _turn[0] += 1
        itp.write(out1)
    except Exception as exc:  # noqa
        ctx.violation(f'read-or-write-raises:{type(exc).__name__}', str(exc)[:200], witness=w)
        return
    orig = ref.ref_itp_tokens(path)
    try:
        written = ref.ref_itp_tokens(out1)
    except Exception as exc:  # noqa
        ctx.violation('written-file-unreadable', str(exc)[:200], witness=w)
        return
    ctx.monitor('tokens_original_vs_written')
    d = diff_tokens(orig, written)
    if d:
        ctx.violation(f'roundtrip-loses:{d[0]}:{rep}', f'{label}: {d[1]}',
                      witness=dict(w, original_head=open(path).read()[:1200], written_head=open(out1).read()[:1200]))
    # what the library itself holds after re-reading the written file, through the same kind of carrier: the same section
    # names in order of first appearance, the same content lines token by token
    try:
        with carrier.carried(out1, kind, decoy=_decoy()) as f:
            held = ItpFile(f)
        got_secs = [(name, [tuple(ln.content.split()) for ln in sec.lines if getattr(ln, 'content', '') and not str(ln).lstrip().startswith('#')])
                    for name, sec in held.items() if name != 'header']
    except Exception as exc:  # noqa
        ctx.violation(f'reparse-raises:{type(exc).__name__}', f'{label} ({kind}): {str(exc)[:200]}', witness=w)
        return
    ctx.monitor('library_view_of_written_file')
    want_secs = [(name, [it[1] for it in items if it[0] == 'content']) for name, items in orig[1]]
    if [n for n, _ in got_secs] != [n for n, _ in want_secs]:
        ctx.violation('reread-sections-differ', f'{label} ({kind}): sections held after re-reading {[n for n, _ in got_secs][:8]}, in the file '
                      f'{[n for n, _ in want_secs][:8]}', witness=w)
    elif got_secs != want_secs:
        bad = next(n for (n, a), (_, b) in zip(got_secs, want_secs) if a != b)
        ctx.violation('reread-content-differs', f'{label} ({kind}): content lines of section {bad!r} differ after re-reading', witness=w)
    # the library's own re-parse
    try:
        t0 = read_topology(path)
        t1 = read_topology(out1)
    except Exception as exc:  # noqa
        ctx.violation(f'reparse-raises:{type(exc).__name__}', f'{label}: {str(exc)[:200]}', witness=w)
        return
    ctx.monitor('topology_original_vs_written')
    if (t0[0], [tuple(a) for a in t0[1]], sorted(set(map(tuple, map(sorted, t0[2]))))) != \
            (t1[0], [tuple(a) for a in t1[1]], sorted(set(map(tuple, map(sorted, t1[2]))))):
        ctx.violation(f'topology-differs-after-roundtrip:{rep}', f'{label}: name/atoms/bonds differ between original and written file', witness=w)
    if truth is not None:
        got_bonds = {(min(a, b), max(a, b)) for a, b in t1[2]}
        if t1[0] != truth['name'] or [tuple(a) for a in t1[1]] != truth['atoms'] or got_bonds != truth['bonds']:
            ctx.violation(f'written-topology-differs-from-truth:{rep}', f'{label}: {len(truth["bonds"] - got_bonds)} bonds missing', witness=w)
    # written back onto the file it was read from (a copy of the original): same content as a write elsewhere
    same = os.path.join(_tmp['dir'], f'same_{os.getpid()}.itp')
    shutil.copyfile(path, same)
    try:
        ItpFile(same).write(same)
        inplace = ref.ref_itp_tokens(same)
    except Exception as exc:  # noqa
        ctx.violation(f'write-onto-source-raises:{type(exc).__name__}', str(exc)[:200], witness=w)
        inplace = None
    ctx.monitor('written_onto_source')
    if inplace is not None:
        d = diff_tokens(written, inplace)
        if d:
            ctx.violation(f'write-onto-source-loses:{d[0]}', f'{label}: {d[1]}', witness=w)
    # written through a copy of the file object: same file as written directly
    viac = os.path.join(_tmp['dir'], f'copy_{os.getpid()}.itp')
    try:
        ItpFile(path).copy().write(viac)
        through_copy = ref.ref_itp_tokens(viac)
        ctx.monitor('written_through_copy')
        d = diff_tokens(written, through_copy)
        if d:
            ctx.violation(f'write-through-copy-loses:{d[0]}', f'{label}: {d[1]}', witness=w)
    except Exception as exc:  # noqa
        ctx.violation(f'write-through-copy-raises:{type(exc).__name__}', str(exc)[:200], witness=w)
    # second round trip
    try:
        ItpFile(out1).write(out2)
        again = ref.ref_itp_tokens(out2)
    except Exception as exc:  # noqa
        ctx.violation(f'second-roundtrip-raises:{type(exc).__name__}', str(exc)[:200], witness=w)
        return
    ctx.monitor('second_round_trip')
    d = diff_tokens(written, again)
    if d:
        ctx.violation(f'second-roundtrip-differs:{d[0]}', f'{label}: {d[1]}', witness=w)


def run_case(ctx, case):
    if case['kind'] == 'shipped':
        path = [p for p in shipped_itp() if os.path.basename(p) == case['file']][0]
        header, secs = ref.ref_itp_tokens(path)
        raw_names = []
        for ln in open(path, encoding='utf-8'):
            s = ln.strip()
            if s.startswith('[') and ']' in s:
                raw_names.append(s[1:s.index(']')].strip())
        classes = set()
        if len(raw_names) != len(set(raw_names)):
            classes.add('repeated-section')
            ctx.hit('shipped-with-repeated-section')
        ctx.count('evaluations')
        ctx.hit('shipped')
        ctx.nontrivial(('shipped', case['file']))
        roundtrip(ctx, path, case['file'], classes=classes)
        if case['file'].startswith('BMIM_CG'):
            ctx.sample({'file': case['file'], 'sections': [n for n, _ in secs], 'header_items': header[:3]})
        return
    i = case['i']
    rng = ctx.rng('gen', i)
    text, truth = itpspec.gen_top(rng, n=int(rng.integers(1, 30)), repeated=(i % 3 == 0), decorate=(i % 4 != 0),
                                  trailing=('plain', 'single', 'empty', 'multiple', 'hash', 'nospace', 'multiple-last-empty', 'semicolons-only', 'hash-nospace'))
    big = None
    if i % (100 if ctx.tier == 'quick' else 1000) == 37:
        # size: the file is longer than any read-ahead or buffer a reader may use (the shipped topologies end at 339 kB).
        # Further sections (repeated names, content, comment and blank lines) are appended up to the size of the class; the
        # generator's own ground truth no longer describes the file, the reference tokeniser does
        big = (('over-64KiB', 1 << 16), ('over-1MiB', 1 << 20), ('over-2MiB', 1 << 21))[(i // 100) % 3]
        parts, size, k = [text if text.endswith('\n') else text + '\n'], len(text), 0
        while size <= big[1] + 4096:
            name = ('dihedrals', 'angles', 'exclusions', 'position_restraints')[k % 4]     # (not bonds, constraints or pairs: those define the bond graph)
            block = [f'[ {name} ]', f'; block {k}'] + \
                    [f'{1 + (k + j) % 97:5d} {1 + (k + 2 * j) % 89:5d} {1 + j % 7:3d} {j * 0.25:9.3f}' + (f' ; {k}.{j}' if j % 9 == 0 else '')
                     for j in range(400)] + ['']
            blk = '\n'.join(block) + '\n'
            parts.append(blk)
            size += len(blk)
            k += 1
        text, truth = ''.join(parts), None
    path = os.path.join(_tmp['dir'], f'g{os.getpid()}.itp')
    dos = (i % 5 == 2)
    with open(path, 'w', newline='\r\n' if dos else None) as fh:          # every fifth file with DOS line endings
        fh.write(text)
    if dos:
        ctx.hit('line-endings:dos')
    ctx.count('evaluations')
    if big:
        ctx.hit('size:' + big[0])
        ctx.nontrivial(('size', big[0], i))
        roundtrip(ctx, path, f'generated#{i}:{big[0]}', classes={'repeated-section', 'size:' + big[0]})
        return
    for c in truth['classes']:
        ctx.hit('repeated-section' if c.startswith('repeated-section:') else c)
    if truth['classes'] - {'numbering:plain', 'trailing:plain'}:
        ctx.nontrivial((tuple(sorted(truth['classes'])), truth['n'] // 5))
    roundtrip(ctx, path, f'generated#{i}', truth=truth, classes=truth['classes'])
    if i < 2:
        ctx.sample({'generated_text': text[:700], 'classes': sorted(truth['classes'])})
