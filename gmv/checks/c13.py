"""
C13 - writing then reading a .gro file returns the same system.

Deciding monitors: differential comparison of (a) the generator's
specification, (b) the written file parsed by the independent fixed-column
reader ref.ref_gro_read and (c) the library's own re-read; plus a line-length
invariant observed on GroFile.writeline (bytes added to the file per record).
"""
import os
import shutil
import tempfile

import numpy as np

from .. import bus, cover, grospec, ref

LEVEL = 'exploration'
JOBS = {'quick': 2, 'thorough': 16}
REQUIRED_MONITORS = ('roundtrip_library_reader', 'roundtrip_reference_reader', 'line_length_writeline')
REQUIRED_CLASSES = ('format:set', 'format:default', 'count:declared', 'count:backfilled', 'vel:yes', 'vel:no',
                    'box:triclinic', 'box:vector', 'numbers:edge', 'number:99999', 'number:>=100000',
                    'coords:rounding-boundary', 'coords:widest', 'dec:1', 'dec:6', 'calls:mixed-writeline-writelines',
                    'calls:one-record-writelines-first', 'boxclass:triclinic-upper', 'boxclass:triclinic-single',
                    'boxclass:triclinic-negative', 'title:multibyte-characters', 'attributes:reassigned', 'attributes:after-records', 'recovery:malformed-record-refused-then-writing-goes-on')
RULE = ('file specifications: 1..300 records x names (5 classes) x number class x coordinate class x decimals 1..6 '
        '(format set through position_format or default) x velocities x box class x count declared/back-filled x title. '
        'Non-trivial: at least 2 records. distinct = distinct (decimals, format mode, velocities, box class, count mode, '
        'number class, coordinate class, size bucket)')
ASSUMPTIONS = [
    'names/residue names: 1-5 printable non-blank ASCII characters',
    'coordinates and velocities are generated so that their formatted text fits the field width (width = decimals + 5; velocities use one more decimal in the same width)',
    'numbers in [0, 10^7]; numbers >= 100000 are only required to keep the line length (wrapped somehow)',
    'titles are single lines; the reader returns the title with its newline: compared modulo one trailing newline',
    'tolerance: half a unit of the last written decimal + 1e-12 for coordinates/velocities, 5e-6 for the box',
]
_cov = cover.Coverage()
_tmp = {}
_lens = {}


def install_line_length_monitor(ctx):
    from gaddlemaps.parsers import GroFile
    real = GroFile.__dict__['writeline']

    def writeline(self, *args, **kwargs):
        atomlist, = bus.seen(('atomlist',), args, kwargs)
        try:
            ready = getattr(self, '_init_position', None) is not None
            before = self._file.tell() if ready else None
        except Exception:  # noqa
            before = None
        out = real(self, *args, **kwargs)
        try:
            if before is not None:
                delta = self._file.tell() - before
                ctx.monitor('line_length_writeline')
                first = self.__dict__.setdefault('_gmv_first_record_bytes', delta)
                expected = first
                if delta != expected:
                    ctx.violation('line-length-varies',
                                  f'record {atomlist} added {delta} bytes, first record of this file {expected}',
                                  witness={'record': list(atomlist) if not isinstance(atomlist, str) else atomlist})
        except Exception as exc:  # noqa
            ctx.violation('monitor-error:line-length', repr(exc))
        return out
    writeline.__gmv_original__ = real
    GroFile.writeline = writeline


def setup(ctx):
    from gaddlemaps.parsers import GroFile
    import gaddlemaps.parsers as P
    for name in ('writeline', '_setup_write_file', 'close', '_write_closing_info', 'parse_atomlist', 'parse_atomline',
                 'determine_format', '_load_and_verify', '_load_box_matrix'):
        f = GroFile.__dict__.get(name)
        f = getattr(f, '__func__', f)
        if f is not None:
            _cov.watch(f, f'GroFile.{name}')
    _cov.watch(P.dump_lattice_gro)
    _cov.watch(P.extract_lattice_gro)
    _cov.start()
    install_line_length_monitor(ctx)
    _tmp['dir'] = tempfile.mkdtemp(prefix='gmv_c13_')


def teardown(ctx):
    _cov.stop()
    ctx.take_coverage(_cov)
    shutil.rmtree(_tmp['dir'], ignore_errors=True)


def cases(ctx):
    n = 1200 if ctx.tier == 'quick' else 400000
    for i in range(n):
        yield {'i': i}
    for i in range(40 if ctx.tier == 'quick' else 2000):
        yield {'i': i, 'api': True}


def classify_number(n):
    if n == 99999:
        return 'number-99999-changed'
    return 'number-below-100000-changed'


def compare(ctx, spec, path, recs_lib, box_lib, title_lib, natoms_lib, which):
    """Compare what a reader returned with the specification."""
    d = spec['dec']
    tolx = 0.5 * 10.0 ** -d
    tolv = 0.5 * 10.0 ** -(d + 1)
    want = spec['records']
    w = {'reader': which, 'file': open(path).read()[:2000], 'spec_head': {k: spec[k] for k in ('title', 'box', 'dec', 'format', 'declare_count', 'with_vel')}}
    if len(recs_lib) != len(want) or natoms_lib != len(want):
        ctx.violation(f'count-differs:{which}', f'{len(want)} records written, {len(recs_lib)} read (natoms={natoms_lib})', witness=w)
        return
    for k, (a, b) in enumerate(zip(want, recs_lib)):
        resid, resname, name, atomid = b[0], b[1], b[2], b[3]
        xyz, vel = b[4:7], (b[7:10] if len(b) >= 10 else None)
        if (resname, name) != (a['resname'], a['name']):
            ctx.violation(f'name-differs:{which}', f'record {k}: wrote {a["resname"]!r},{a["name"]!r} read {resname!r},{name!r}', witness=w)
            return
        for label, wrote, got in (('residue', a['resid'], resid), ('atom', a['atomid'], atomid)):
            if wrote < 100000 and wrote != got:
                ctx.violation(classify_number(wrote) + f':{which}', f'record {k}: {label} number {wrote} read back as {got}', witness=dict(w, record=a))
                return
        for c in range(3):
            if abs(xyz[c] - a['xyz'][c]) > tolx + 1e-12 * (1 + abs(a['xyz'][c])):
                ctx.violation(f'coordinate-off:{which}', f'record {k}: wrote {a["xyz"][c]!r} read {xyz[c]!r} ({d} decimals)', witness=dict(w, record=a))
                return
        if spec['with_vel']:
            if vel is None or len(vel) != 3:
                ctx.violation(f'velocities-lost:{which}', f'record {k}: velocities not returned', witness=w)
                return
            for c in range(3):
                if abs(vel[c] - a['vel'][c]) > tolv + 1e-12 * (1 + abs(a['vel'][c])):
                    ctx.violation(f'velocity-off:{which}', f'record {k}: wrote {a["vel"][c]!r} read {vel[c]!r} ({d + 1} decimals)', witness=dict(w, record=a))
                    return
        elif vel:
            ctx.violation(f'velocities-invented:{which}', f'record {k}', witness=w)
            return
    boxw = grospec.box_as_matrix(spec['box'])
    if np.abs(np.asarray(box_lib, float) - boxw).max() > 5e-6 + 1e-12:
        ctx.violation(f'box-off:{which}', f'wrote {boxw.tolist()} read {np.asarray(box_lib).tolist()}', witness=w)
    if spec['title'] is not None:
        t = title_lib[:-1] if title_lib.endswith('\n') else title_lib
        if t != spec['title']:
            ctx.violation(f'title-differs:{which}', f'wrote {spec["title"]!r} read {t!r}', witness=w)


def run_api(ctx, case):
    """The same round trip through the component-level writers (Residue.write_gro,
    Molecule.write_gro): what a user gets when saving a molecule."""
    from gaddlemaps.parsers import GroFile
    from .. import gen
    i = case['i']
    rng = ctx.rng('api', i)
    n = int(rng.integers(1, 30))
    edges = gen.random_tree(rng, n)
    pos = np.round(rng.uniform(-99, 99, (n, 3)), 3) if i % 2 else rng.uniform(-99, 99, (n, 3))
    vel = rng.normal(size=(n, 3)) if i % 3 == 0 else None
    ids = [int(x) for x in rng.integers(1, 100000, n)]
    resid = int(rng.choice([1, 7, 9999, 99999, 12345]))
    mol = gen.make_molecule('MOL', gen.atom_names(n, 'A'), edges, pos, resids=[resid] * n, vel=vel, atomids=ids)
    obj = mol if i % 2 else mol.residues[0]
    path = os.path.join(_tmp['dir'], f'api{os.getpid()}.gro')
    ctx.count('evaluations')
    ctx.hit('api:write_gro')
    try:
        obj.write_gro(path)
        g = GroFile(path)
        recs = g.readlines()
        g.close()
    except Exception as exc:  # noqa
        ctx.violation(f'write_gro-roundtrip-raises:{type(exc).__name__}', str(exc)[:200], witness={'n': n, 'resid': resid, 'velocities': vel is not None})
        return
    ctx.monitor('roundtrip_library_reader')
    spec = {'dec': 3, 'with_vel': vel is not None, 'box': None, 'title': None, 'format': 'default', 'declare_count': False,
            'records': [{'resid': resid, 'resname': 'MOL', 'name': f'A{k}', 'atomid': ids[k], 'xyz': [float(x) for x in pos[k]],
                         **({'vel': [float(x) for x in vel[k]]} if vel is not None else {})} for k in range(n)]}
    compare(ctx, spec, path, recs, np.zeros((3, 3)), '', len(recs), 'library-reader')
    ctx.nontrivial(('api', n, vel is not None, resid))


def run_case(ctx, case):
    from gaddlemaps.parsers import GroFile
    if case.get('api'):
        return run_api(ctx, case)
    i = case['i']
    rng = ctx.rng('spec', i)
    force = {}
    # make sure the rare corners are visited regularly
    if i % 7 == 0:
        force['numbers'] = 'edge'
    if i % 11 == 0:
        force['coords'] = ['rounding-boundary', 'widest', 'negative-zero'][i // 11 % 3]
    if i % 9 == 0:
        force['title'] = 'multibyte'
    if i % 13 == 0:
        force['box'] = ['triclinic', 'triclinic-negative', 'triclinic-tiny', 'triclinic-upper', 'triclinic-single'][i // 13 % 5]
    spec = grospec.gen_spec(rng, nmax=300 if ctx.tier == 'thorough' or i % 5 == 0 else 40,
                            dec=(i % 6 + 1) if i % 3 == 0 else None, force=force)
    path = os.path.join(_tmp['dir'], f'c{os.getpid()}.gro')
    ctx.count('evaluations')
    ctx.hit('format:' + spec['format'])
    ctx.hit('count:' + ('declared' if spec['declare_count'] else 'backfilled'))
    ctx.hit('vel:' + ('yes' if spec['with_vel'] else 'no'))
    ctx.hit('box:' + ('triclinic' if spec['box_class'].startswith('tri') else spec['box_class']))
    ctx.hit('boxclass:' + spec['box_class'])
    ctx.hit('numbers:' + spec['number_class'])
    ctx.hit('coords:' + spec['coord_class'])
    ctx.hit(f'dec:{spec["dec"]}')
    ctx.hit('attributes:' + ((spec.get('attr_history') or {}).get('kind') or 'set-once'))
    if spec.get('refusals'):
        ctx.hit('recovery:malformed-record-refused-then-writing-goes-on')
    if spec['title'] is not None and len(spec['title'].encode()) != len(spec['title']):
        ctx.hit('title:multibyte-characters')
    if spec.get('schedule'):
        ctx.hit('calls:mixed-writeline-writelines')
        if spec['schedule'][0] == ('lines', 1):
            ctx.hit('calls:one-record-writelines-first')
    nums = [r['resid'] for r in spec['records']] + [r['atomid'] for r in spec['records']]
    if 99999 in nums:
        ctx.hit('number:99999')
    if any(n >= 100000 for n in nums):
        ctx.hit('number:>=100000')
    _lens.clear()
    try:
        grospec.write_spec(spec, path, GroFile)
    except Exception as exc:  # noqa
        mode = 'position_format-set-before-first-record' if spec['format'] == 'set' else 'default-format'
        ctx.violation(f'writer-raises:{type(exc).__name__}:{mode}', f'{type(exc).__name__}: {str(exc)[:200]}',
                      witness={'spec_head': {k: spec[k] for k in ('title', 'box', 'dec', 'format', 'declare_count', 'with_vel')},
                               'first_record': spec['records'][0]})
        return
    n = len(spec['records'])
    if n >= 2:
        ctx.nontrivial((spec['dec'], spec['format'], spec['with_vel'], spec['box_class'], spec['declare_count'],
                        spec['number_class'], spec['coord_class'], min(n // 20, 5)))
    # (b) independent reader + equal line lengths
    try:
        r = ref.ref_gro_read(path)
    except Exception as exc:  # noqa
        raw = open(path).read().split('\n')
        lens = sorted({len(l) for l in raw[2:2 + n]})
        mech = 'line-length-varies-in-file' if len(lens) > 1 else f'file-unreadable-by-reference:{type(exc).__name__}'
        ctx.violation(mech, f'{exc}; atom line lengths {lens}', witness={'file': '\n'.join(raw[:12])})
    else:
        ctx.monitor('roundtrip_reference_reader')
        recs = [(a, b, c, e) + tuple(x) + (tuple(v) if v else ()) for (a, b, c, e, x, v) in r['records']]
        compare(ctx, spec, path, recs, r['box'], r['title'], r['natoms'], 'reference-reader')
        if r['dec'] != spec['dec']:
            ctx.violation('decimals-differ', f'asked for {spec["dec"]} decimals, file has {r["dec"]}')
    # (c) the library's reader
    try:
        g = GroFile(path)
        recs = g.readlines()
        box, title, natoms = g.box_matrix, g.comment, g.natoms
        g.close()
    except Exception as exc:  # noqa
        ctx.violation(f'library-reader-raises:{type(exc).__name__}', str(exc)[:200], witness={'file': open(path).read()[:1500]})
        return
    ctx.monitor('roundtrip_library_reader')
    compare(ctx, spec, path, recs, box, title, natoms, 'library-reader')
    if i < 3:
        ctx.sample({'spec': {k: spec[k] for k in ('title', 'box', 'dec', 'format', 'declare_count', 'with_vel')},
                    'records_written': spec['records'][:3], 'file_head': open(path).read().split('\n')[:5]})
