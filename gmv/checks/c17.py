"""
C17 - rotation matrices are proper rotations; local frames are orthonormal.

Deciding monitors: the contracts of monitors.py on rotation_matrix and
calcule_base (installed at every call-time name) plus metamorphic relations
between several calls (inverse, composition, axis scale).  The workload is a
directed sweep over the input classes of the property *and* embedded real
workloads (exchange maps, Monte-Carlo minimisation, Residue.rotate) so that
the contracts also see the arguments the library itself produces.
"""
import math

import numpy as np

from .. import bus, core, cover, gen, monitors

LEVEL = 'exploration'
JOBS = {'quick': 2, 'thorough': 16}
REQUIRED_MONITORS = ('rotation_contract', 'frame_contract', 'rot_relations')
REQUIRED_CLASSES = ('settings:warnings-as-errors', 'settings:fp-raise', 'settings:fp-ignore', 'call:keyword-arguments', 'axis-length:unit', 'axis-length:almost-unit', 'frame:collinear', 'frame:generic', 'triple:collinear-z', 'triple:collinear-int',
                    'triple:collinear-moved', 'triple:coincident-middle', 'embedded:exchange-map',
                    'embedded:minimize')
RULE = ('rotation cases: (axis class x axis-norm decade x angle class); frame cases: (triple class x scale '
        'decade); a case is non-trivial when the matrix/frame is not the identity or axis-aligned trivial '
        'case; distinct = distinct (kind, class, decade, angle class) keys')
ASSUMPTIONS = [
    'axes non-zero and finite, |axis| in [1e-6, 1e6], angles in [-20, 20]',
    'point triples finite with first != third; triples are generic (sin of the angle at the first point >= 1e-6) '
    'or collinear to rounding (sin <= 1e-12) or have a coincident middle point; the band in between is counted, not judged',
    'tolerance 1e-9 on every relation',
]

N = {'quick': dict(rot=12000, tri=25000, emb=12), 'thorough': dict(rot=3000000, tri=6000000, emb=1500)}
BATCH = 500
_cov = cover.Coverage()


def setup(ctx):
    import gaddlemaps._auxilliary as aux
    _cov.watch_attr(aux, 'rotation_matrix')
    _cov.watch_attr(aux, 'calcule_base')
    _cov.start()
    monitors.install_rotation_contract(ctx)
    monitors.install_frame_contract(ctx)


def teardown(ctx):
    _cov.stop()
    ctx.take_coverage(_cov)


def cases(ctx):
    n = N[ctx.tier]
    for b in range(n['rot'] // BATCH):
        yield {'kind': 'rot', 'batch': b}
    for b in range(n['tri'] // BATCH):
        yield {'kind': 'tri', 'batch': b}
    for b in range(n['emb']):
        yield {'kind': 'emb', 'batch': b}


AXIS_CLASSES = ['random', 'x', 'y', 'z', '-z', 'diag', 'near-axis', 'integer']
ANGLE_CLASSES = ['uniform', 'zero', 'pi', '-pi', '2pi', '-2pi', 'tiny', 'halfpi', 'big']


def gen_axis(rng, cls):
    if cls == 'random':
        a = rng.normal(size=3)
    elif cls in ('x', 'y', 'z'):
        a = np.zeros(3)
        a['xyz'.index(cls)] = 1.0
    elif cls == '-z':
        a = np.array([0.0, 0.0, -1.0])
    elif cls == 'diag':
        a = rng.choice([-1.0, 1.0], size=3)
    elif cls == 'near-axis':
        a = np.array([1.0, 0, 0]) + rng.normal(size=3) * 1e-9
    else:
        a = rng.integers(-9, 10, 3).astype(float)
        if not a.any():
            a[int(rng.integers(0, 3))] = 1.0
    decade = int(rng.integers(-6, 6))
    r = rng.random()
    if r < 0.08:
        # already (as good as) normalised, or a length that differs from 1 only from the 4th..12th decimal on
        a = a / np.linalg.norm(a)
        return a, 'unit'
    if r < 0.2:
        a = a / np.linalg.norm(a) * (1.0 + float(rng.choice([-1, 1])) * 10.0 ** rng.uniform(-12, -3))
        return a, 'almost-unit'
    a = a / np.linalg.norm(a) * 10.0 ** rng.uniform(decade, decade + 1)
    return a, decade


def gen_angle(rng, cls):
    return {
        'uniform': lambda: float(rng.uniform(-20, 20)),
        'zero': lambda: 0.0,
        'pi': lambda: math.pi,
        '-pi': lambda: -math.pi,
        '2pi': lambda: 2 * math.pi,
        '-2pi': lambda: -2 * math.pi,
        'tiny': lambda: float(10.0 ** rng.uniform(-12, -4) * rng.choice([-1, 1])),
        'halfpi': lambda: float(rng.choice([-1, 1]) * math.pi / 2),
        'big': lambda: float(rng.choice([-1, 1]) * rng.uniform(15, 20)),
    }[cls]()


def run_rot(ctx, case):
    import gaddlemaps
    rng = ctx.rng('rot', case['batch'])
    for k in range(BATCH):
        acls = AXIS_CLASSES[int(rng.integers(0, len(AXIS_CLASSES)))]
        tcls = ANGLE_CLASSES[int(rng.integers(0, len(ANGLE_CLASSES)))]
        axis, decade = gen_axis(rng, acls)
        th = gen_angle(rng, tcls)
        th2 = gen_angle(rng, 'uniform') / 2
        rm = gaddlemaps.rotation_matrix       # resolved at call time: the contract wrapper
        if k % 4 == 1:
            pos_rm = rm
            style = k // 4 % 3
            # the same function called by keyword (both arguments, the angle only, arguments swapped in order)
            rm = [lambda a, t: pos_rm(axis=a, theta=t), lambda a, t: pos_rm(a, theta=t), lambda a, t: pos_rm(theta=t, axis=a)][style]
            ctx.hit('call:keyword-arguments')
        R = core.under(ctx, core.next_settings(ctx), rm, axis, th)
        ctx.count('evaluations')
        ctx.hit('axis:' + acls)
        ctx.hit('angle:' + tcls)
        if isinstance(decade, str):
            ctx.hit('axis-length:' + decade)
        if not np.all(np.isfinite(R)):
            continue
        w = {'axis': axis, 'theta': th, 'theta2': th2}
        Rm = rm(axis, -th)
        ctx.monitor('rot_relations')
        e = float(np.abs(Rm - R.T).max())
        if e > monitors.TOL:
            ctx.violation('rot-inverse', f'|R(-t) - R(t)^T| = {e:.3g}', witness=w)
        R2 = rm(axis, th2)
        R12 = rm(axis, th + th2)
        e = float(np.abs(R @ R2 - R12).max())
        if e > monitors.TOL:
            ctx.violation('rot-composition', f'|R(a)R(b) - R(a+b)| = {e:.3g}', witness=w)
        lam = 10.0 ** rng.uniform(-3, 3)
        if 1e-6 <= np.linalg.norm(axis) * lam <= 1e6:
            Rs = rm(axis * lam, th)
            e = float(np.abs(Rs - R).max())
            if e > monitors.TOL:
                ctx.violation('rot-axis-scale', f'|R(lambda axis) - R(axis)| = {e:.3g} lambda={lam}', witness=w)
        # a rotation really rotates: a vector perpendicular to the axis turns by |theta|
        u = np.cross(axis, rng.normal(size=3))
        nu = np.linalg.norm(u)
        if nu > 1e-3 * np.linalg.norm(axis):
            u /= nu
            c = float(u @ (R @ u))
            if abs(c - math.cos(th)) > 1e-8:
                ctx.violation('rot-angle', f'perpendicular vector turned by acos({c:.9g}), expected theta={th}', witness=w)
        if abs(math.sin(th)) > 1e-3 or abs(math.cos(th) - 1) > 1e-3:
            ctx.nontrivial(('rot', acls, decade, tcls))
        if k == 0 and case['batch'] < 2:
            ctx.sample({'kind': 'rotation', 'axis': axis, 'theta': th, 'R': R})


TRI_CLASSES = ['generic', 'right-angle', 'collinear-x', 'collinear-y', 'collinear-z', 'collinear-diag',
               'collinear-int', 'collinear-dec', 'collinear-moved', 'coincident-middle', 'middle-equals-third',
               'collinear-reversed', 'planar-xy']


def gen_triple(rng, cls):
    scale = 10.0 ** rng.uniform(-3, 3)
    p0 = rng.normal(size=3) * scale if rng.random() < 0.7 else np.zeros(3)
    if cls == 'generic':
        while True:
            p1, p2 = p0 + rng.normal(size=3) * scale, p0 + rng.normal(size=3) * scale
            if gen.sin_angle(p0, p1, p2) > 1e-2:
                break
    elif cls == 'right-angle':
        q = gen.random_rotation(rng)
        p1, p2 = p0 + q[0] * scale * rng.uniform(0.1, 2), p0 + q[1] * scale * rng.uniform(0.1, 2)
    elif cls in ('collinear-x', 'collinear-y', 'collinear-z'):
        d = np.zeros(3)
        d['xyz'.index(cls[-1])] = rng.choice([-1.0, 1.0])
        p0 = np.round(p0 / scale * 8) * scale / 8 if rng.random() < 0.5 else np.zeros(3)
        p1, p2 = p0 + d * scale * rng.uniform(0.1, 3), p0 + d * scale * rng.uniform(0.1, 3)
    elif cls == 'collinear-diag':
        d = rng.choice([-1.0, 1.0], size=3) * (rng.random(3) < 0.7)
        if not d.any():
            d = np.ones(3)
        k1, k2 = rng.integers(1, 9, 2)
        p0 = np.zeros(3)
        p1, p2 = d * float(k1), d * float(k2)
    elif cls == 'collinear-int':
        d = rng.integers(-9, 10, 3).astype(float)
        if not d.any():
            d[int(rng.integers(0, 3))] = 1.0
        p0 = rng.integers(-20, 21, 3).astype(float)
        k1, k2 = rng.integers(-9, 10), rng.integers(1, 10) * rng.choice([-1, 1])
        p1, p2 = p0 + d * float(k1), p0 + d * float(k2)
    elif cls == 'collinear-dec':
        d = np.round(rng.normal(size=3), 2)
        if not d.any():
            d[0] = 0.1
        p0 = np.zeros(3)
        k1, k2 = float(np.round(rng.uniform(0.1, 3), 1)), float(np.round(rng.uniform(0.1, 3), 1))
        p1, p2 = d * k1, d * k2
    elif cls == 'collinear-moved':
        d = rng.normal(size=3)
        a, b = rng.uniform(0.1, 3), rng.uniform(0.1, 3)
        q = gen.random_rotation(rng)
        p1, p2 = p0 + (q @ d) * a * scale, p0 + (q @ d) * b * scale
    elif cls == 'coincident-middle':
        p1 = p0.copy()
        p2 = p0 + rng.normal(size=3) * scale
    elif cls == 'middle-equals-third':
        p2 = p0 + rng.normal(size=3) * scale
        p1 = p2.copy()
    elif cls == 'collinear-reversed':
        d = rng.integers(-5, 6, 3).astype(float)
        if not d.any():
            d[2] = 1.0
        p0 = np.zeros(3)
        p1, p2 = -d * float(rng.integers(1, 5)), d * float(rng.integers(1, 5))
    else:  # planar-xy
        p0 = np.array([rng.normal(), rng.normal(), 0.0]) * scale
        p1 = np.array([rng.normal(), rng.normal(), 0.0]) * scale
        p2 = np.array([rng.normal(), rng.normal(), 0.0]) * scale
    return [np.array(p0, float), np.array(p1, float), np.array(p2, float)], int(math.floor(math.log10(scale)))


def run_tri(ctx, case):
    import gaddlemaps
    rng = ctx.rng('tri', case['batch'])
    for k in range(BATCH):
        cls = TRI_CLASSES[int(rng.integers(0, len(TRI_CLASSES)))]
        pts, decade = gen_triple(rng, cls)
        if not np.any(pts[2] - pts[0]):
            continue
        as_list = rng.random() < 0.5
        arg = [p.copy() for p in pts] if as_list else np.array(pts)
        try:
            # under the warning / floating-point settings a caller may have chosen (core.settings): the frame is the same,
            # or the call is refused because of those settings and answers when called again without them
            res = core.under(ctx, core.next_settings(ctx), gaddlemaps.calcule_base, arg)
        except Exception as exc:  # noqa
            ctx.violation(f'frame-raises:{type(exc).__name__}', f'{exc} for {cls}', witness={'points': pts})
            continue
        ctx.count('evaluations')
        ctx.hit('triple:' + cls)
        ctx.nontrivial(('tri', cls, decade))
        if k == 0 and case['batch'] < 3:
            ctx.sample({'kind': 'frame', 'class': cls, 'points': pts, 'frame': [v for v in res[0]], 'origin': res[1]})


def run_emb(ctx, case):
    """Real workloads whose internal calls go through the contracts."""
    import gaddlemaps
    from gaddlemaps import ExchangeMap
    rng = ctx.rng('emb', case['batch'])
    n = int(rng.integers(3, 25))
    kind, edges = gen.random_connected_graph(rng, n)
    pos = gen.embed_graph(rng, n, edges)
    if case['batch'] % 3 == 0:
        # a linear reference along a random / coordinate direction
        d = [np.array([0, 0, 1.0]), np.array([1.0, 0, 0]), np.array([1.0, 1.0, 1.0]),
             rng.integers(-5, 6, 3).astype(float)][int(rng.integers(0, 4))]
        if not d.any():
            d = np.array([0, 1.0, 0])
        edges = gen.chain(n)
        pos = np.array([d * float(i) for i in range(n)]) * 0.25
    ref = gen.make_molecule('REF', gen.atom_names(n, 'B'), edges, pos)
    m = int(rng.integers(1, 40))
    tpos = gen.random_positions(rng, m, scale=1.0) + pos.mean(axis=0)
    tgt = gen.make_molecule('REF', gen.atom_names(m, 'C'), gen.random_tree(rng, m), tpos)
    emap = ExchangeMap(ref, tgt, float(rng.choice([1.0, 0.5, rng.uniform(0.05, 2)])))
    for _ in range(4):
        moved = ref.copy()
        moved.rotate(gaddlemaps.rotation_matrix(rng.normal(size=3), float(rng.uniform(-7, 7))))
        moved.move(rng.normal(size=3) * 5)
        emap(moved)
    ctx.hit('embedded:exchange-map')
    # a short Monte-Carlo run: rotation matrices built by the engine itself
    np.random.seed(ctx.libseed('emb', case['batch']))
    mob = gen.make_molecule('MOB', gen.atom_names(n, 'B'), edges, gen.embed_graph(rng, n, edges))
    fixed = gen.random_positions(rng, int(rng.integers(n, 40)), scale=1.0)
    gaddlemaps.minimize_molecules(fixed, mob.atoms_positions, mob.geometric_center, 0.5,
                                  int(rng.integers(20, 80)), [], mob.bonds_distance, 0.3, (0, 1, 2))
    ctx.hit('embedded:minimize')
    ctx.count('evaluations')
    ctx.nontrivial(('emb', kind, n // 5))


def run_case(ctx, case):
    {'rot': run_rot, 'tri': run_tri, 'emb': run_emb}[case['kind']](ctx, case)
