"""
C19 - the periodic distance is the minimum-image distance.

Deciding monitors: a reference-model contract on Residue.distance_to (class
attribute wrapper; evaluated on every call that passes a box) comparing with a
per-axis image scan for rectangular boxes, plus metamorphic relations driven by
the workload (symmetry, integer lattice shifts of either argument, inverse
flag) for every non-singular box.
"""
import numpy as np

from .. import bus, core, cover, gen, ref

LEVEL = 'exploration'
JOBS = {'quick': 2, 'thorough': 16}
REQUIRED_MONITORS = ('min_image_reference', 'symmetry', 'lattice_shift', 'inverse_flag', 'history_independence')
REQUIRED_CLASSES = ('box:cubic', 'box:anisotropic', 'box:triclinic', 'arg:residue', 'arg:point', 'arg:multi-residue-molecule',
                    'placement:across-face', 'placement:far-outside', 'placement:lattice-points', 'box:triclinic-upper-only', 'box:triclinic-full', 'wrapped:yes', 'wrapped:no',
                    'session:same', 'session:rescale-in-place', 'session:new-values-in-place', 'session:other-object', 'call:positional', 'call:mixed', 'call:keywords',
                    'settings:warnings-as-errors', 'settings:fp-raise', 'settings:fp-ignore')
RULE = ('pairs (residue, residue-or-point) x box; classes: box kind (cubic / anisotropic rectangular / triclinic with '
        'skew <= 0.4 L), placement (inside, across a face, on a face, many boxes away). Non-trivial: the minimum '
        'image is not the plain separation (some axis wraps). distinct = distinct (box kind, placement, argument '
        'kind, number of wrapped axes, size bucket)')
ASSUMPTIONS = [
    'separations within 1e-6 (fractional) of an exact half box are excluded and counted (two images tie)',
    'rectangular boxes with edges 0.5..20 nm; triclinic boxes with lower-triangular rows and |off-diagonal| <= 0.4 x the diagonal',
    'tolerance 1e-9 relative to the longest box edge; lattice shifts in [-3, 3]^3',
]
_cov = cover.Coverage()
_real = {}


def install_contract(ctx):
    from gaddlemaps.components import Residue
    real = Residue.__dict__['distance_to']
    _real['distance_to'] = real

    def distance_to(self, *args, **kwargs):
        residue, box_vects, inv = bus.seen(('residue', 'box_vects', 'inv'), args, kwargs, {'inv': False})
        try:
            a = np.array(self.geometric_center, float)
            b = np.array(residue.geometric_center if isinstance(residue, Residue) else residue, float)
            box_before = None if box_vects is None else np.array(box_vects, float, copy=True)
        except Exception:  # noqa
            a = b = box_before = None
        value = real(self, *args, **kwargs)
        try:
            with bus.neutral():
                if box_before is not None and a is not None and box_before.shape == (3, 3):
                    box = np.linalg.inv(box_before) if inv else box_before
                    judge(ctx, a, b, box, value, inv)
                    if not np.array_equal(np.asarray(box_vects, float), box_before):
                        ctx.violation('distance-box-modified', 'distance_to changed the box array it was given')
        except Exception as exc:  # noqa
            ctx.violation('monitor-error:distance', repr(exc))
        return value
    distance_to.__gmv_original__ = real
    Residue.distance_to = distance_to


def judge(ctx, a, b, box, value, inv):
    off = box - np.diag(np.diag(box))
    scale = float(np.abs(box).max())
    if np.abs(off).max() > 1e-12 * scale:
        return
    L = np.diag(box)
    if np.any(L <= 0):
        return
    delta = b - a
    want, margin = ref.ref_min_image_orthorhombic(delta, L)
    if margin < 1e-6 * float(L.min()):
        ctx.count('skipped_half_box_tie')
        return
    ctx.monitor('min_image_reference')
    plain = float(np.linalg.norm(delta))
    w = {'a': a, 'b': b, 'box_edges': L, 'library': float(value), 'reference': want, 'plain': plain, 'inv_flag': bool(inv)}
    if not np.isfinite(value):
        ctx.violation('distance-nonfinite', f'{value}', witness=w)
    elif abs(float(value) - want) > 1e-9 * float(L.max()):
        ctx.violation('distance-not-minimum-image' + ('-inv' if inv else ''),
                      f'library {float(value):.12g} != minimum image {want:.12g} (plain {plain:.6g}, box {L.tolist()})', witness=w)
    elif float(value) > plain + 1e-9 * float(L.max()):
        ctx.violation('distance-exceeds-plain', f'{float(value):.12g} > {plain:.12g}', witness=w)


def setup(ctx):
    from gaddlemaps.components import Residue
    _cov.watch_attr(Residue, 'distance_to')
    _cov.start()
    install_contract(ctx)


def teardown(ctx):
    _cov.stop()
    ctx.take_coverage(_cov)


def cases(ctx):
    n = 4000 if ctx.tier == 'quick' else 3000000
    for b in range(n // 50):
        yield {'batch': b}
    for b in range(60 if ctx.tier == 'quick' else 40000):
        yield {'session': b}


_shape_no = [0]


def dist(ctx, a, b, box, inv=False):
    """a.distance_to(b, ...) with the box (or its inverse) in one of the call shapes the signature
    distance_to(residue, box_vects=None, inv=False) allows, in rotation."""
    kind = core.next_settings(ctx)
    if kind != 'default':
        # the same call under the warning / floating-point settings a caller may have chosen (the unchanged library is
        # silent here: being refused with a warning-turned-exception would itself be the observation)
        with core.settings(kind):
            return _dist(ctx, a, b, box, inv)
    return _dist(ctx, a, b, box, inv)


def _dist(ctx, a, b, box, inv=False):
    k = _shape_no[0] = (_shape_no[0] + 1) % 6
    if k == 0:
        ctx.hit('call:keywords')
        return a.distance_to(b, box_vects=box, inv=True) if inv else a.distance_to(b, box_vects=box)
    if k == 1:
        ctx.hit('call:positional')
        return a.distance_to(b, box, True) if inv else a.distance_to(b, box)
    if k == 2:
        ctx.hit('call:positional')
        return a.distance_to(b, box, inv)
    if k == 3:
        ctx.hit('call:mixed')
        return a.distance_to(b, box, inv=inv)
    if k == 4:
        ctx.hit('call:keywords')
        return a.distance_to(residue=b, box_vects=box, inv=inv)
    ctx.hit('call:keywords')
    return a.distance_to(b, inv=inv, box_vects=box)


def make_multi_residue_molecule(rng, centre):
    """A molecule of two to four residues of different sizes; neighbouring residues have different names and, half of
    the time, the same residue number (a lipid whose head and tail are named differently under one number)."""
    sizes = [int(x) for x in rng.integers(1, 5, int(rng.integers(2, 5)))]
    n = sum(sizes)
    pos = rng.normal(size=(n, 3)) * 0.3
    pos += centre - pos.mean(axis=0)
    resnames, resids, num = [], [], int(rng.integers(1, 900))
    for k, sz in enumerate(sizes):
        if k and rng.random() < 0.5:
            num += 1
        resnames += [f'P{k}'] * sz
        resids += [num] * sz
    return gen.make_molecule('LIP', gen.atom_names(n, 'L'), gen.chain(n), pos, resnames=resnames, resids=resids)


def make_residue(rng, centre, n):
    pos = rng.normal(size=(n, 3)) * 0.2
    pos += centre - pos.mean(axis=0)
    names = gen.atom_names(n, 'R')
    return gen.make_residues(names, ['RES'] * n, [1] * n, pos)[0]


BOXES = ['cubic', 'anisotropic', 'triclinic']
PLACES = ['inside', 'across-face', 'on-face', 'far-outside', 'same-point', 'lattice-points']


_shape = []


def gen_box(rng, cls):
    if cls == 'cubic':
        return np.eye(3) * rng.uniform(0.5, 20)
    if cls == 'anisotropic':
        L = 10.0 ** rng.uniform(np.log10(0.5), np.log10(20), size=3)
        return np.diag(L)
    L = rng.uniform(0.5, 20, size=3)
    box = np.diag(L)
    shape = int(rng.integers(0, 4))
    if shape in (0, 1, 3):
        # the GROMACS shape: skew below the diagonal
        box[1, 0] = rng.uniform(-0.4, 0.4) * L[0]
        box[2, 0] = rng.uniform(-0.4, 0.4) * L[0]
        box[2, 1] = rng.uniform(-0.4, 0.4) * L[1]
    if shape in (2, 3):
        # skew above the diagonal (the transposed convention), alone or together with the lower terms
        box[0, 1] = rng.uniform(-0.3, 0.3) * L[1]
        box[0, 2] = rng.uniform(-0.3, 0.3) * L[2]
        box[1, 2] = rng.uniform(-0.3, 0.3) * L[2]
        _shape.append('upper-only' if shape == 2 else 'full')
    return box


def gen_points(rng, cls, box):
    fa = rng.uniform(0, 1, 3)
    if cls == 'inside':
        fb = np.clip(fa + rng.uniform(-0.3, 0.3, 3), 0, 1)
    elif cls == 'across-face':
        fa = rng.uniform(0, 0.15, 3)
        fb = rng.uniform(0.85, 1.0, 3)
        keep = rng.random(3) < 0.5
        if keep.all():
            keep[int(rng.integers(0, 3))] = False
        fb = np.where(keep, fa + rng.uniform(0, 0.2, 3), fb)
    elif cls == 'on-face':
        fa = np.where(rng.random(3) < 0.5, np.round(fa), fa)
        fb = rng.uniform(0, 1, 3)
    elif cls == 'far-outside':
        fb = rng.uniform(0, 1, 3) + rng.integers(-100, 101, 3)
        if rng.random() < 0.5:
            fa = fa + rng.integers(-100, 101, 3)
    elif cls == 'lattice-points':
        # both points on (or within rounding noise of) points of the lattice spanned by the box vectors: the origin, a
        # corner, a molecule centred at the origin whose centre is -3e-17 instead of 0 ...
        def noise():
            r = rng.random()
            if r < 0.4:
                return np.zeros(3)
            return rng.choice([-1.0, 1.0], 3) * 10.0 ** rng.uniform(-18, -13, 3) * (rng.random(3) < 0.7)
        fa = rng.integers(-3, 4, 3).astype(float) * (rng.random() < 0.6)
        fb = rng.integers(-3, 4, 3).astype(float) * (rng.random() < 0.6)
        scale = float(np.abs(box).max())
        return fa @ box + noise() * scale, fb @ box + noise() * scale
    else:
        fb = fa.copy()
    return fa @ box, fb @ box


def run_session(ctx, case):
    """Many calls that pass the SAME box array object (and the same inverse-box object), edited in place between calls
    (rescaled, replaced by another box's values), on residues that are moved in place between calls.  Every call is
    judged by the contract against the values the arrays hold at that call, and must return bit for bit what the same
    call returns with pristine copies of its arguments."""
    rng = ctx.rng('session', case['session'])
    box = gen_box(rng, BOXES[int(rng.integers(0, 3))])
    inv = np.linalg.inv(box)
    pool = [make_residue(rng, rng.uniform(0, 1, 3) @ box, int(rng.integers(1, 6))) for _ in range(4)]
    hist = []
    for step in range(30):
        op = ['same', 'same', 'rescale-in-place', 'new-values-in-place', 'move-residue', 'other-object'][int(rng.integers(0, 6))] if step else 'same'
        use_box, use_inv = box, inv
        if op == 'rescale-in-place':
            f = float(rng.choice([1.07, 0.93, 2.0, 0.5, rng.uniform(0.8, 1.25)]))
            if rng.random() < 0.5:
                box *= f
            else:
                box[int(rng.integers(0, 3))] *= f
            inv[:] = np.linalg.inv(box)
        elif op == 'new-values-in-place':
            box[:] = gen_box(rng, BOXES[int(rng.integers(0, 3))])
            inv[:] = np.linalg.inv(box)
        elif op == 'move-residue':
            pool[int(rng.integers(0, 4))].move(rng.normal(size=3) * float(np.abs(box).max()) * float(rng.choice([0.1, 1, 5])))
        elif op == 'other-object':
            use_box = gen_box(rng, BOXES[int(rng.integers(0, 3))])
            use_inv = np.linalg.inv(use_box)
        ctx.hit('session:' + op)
        hist.append(op)
        i, j = (int(x) for x in rng.choice(4, 2, replace=False))
        a = pool[i]
        b = pool[j] if rng.random() < 0.6 else np.array(pool[j].geometric_center)
        w = {'history': list(hist), 'box': use_box.copy(), 'a': a.geometric_center, 'b': np.array(b.geometric_center if hasattr(b, 'geometric_center') else b)}
        # the four calls of a step in random order (so that the re-used objects are often passed in consecutive
        # library calls, across the in-place edit, and often not)
        calls = {'box': lambda: a.distance_to(b, box_vects=use_box),
                 'box-pristine': lambda: a.copy().distance_to(b.copy(), box_vects=use_box.copy()),
                 'inv': lambda: a.distance_to(b, box_vects=use_inv, inv=True),
                 'inv-pristine': lambda: a.copy().distance_to(b.copy(), box_vects=use_inv.copy(), inv=True)}
        order = [list(calls)[k] for k in rng.permutation(4)]
        if rng.random() < 0.5:
            order.append(['box', 'inv'][int(rng.integers(0, 2))])     # the step ends on a re-used object
        got = {}
        ok = True
        for name in order:
            v = calls[name]()
            ctx.count('evaluations')
            if name in got and not (got[name] == v):
                ctx.violation('distance-depends-on-earlier-calls', f'the same call repeated within one step: {got[name]!r} then {v!r}', witness=w)
                ok = False
            got[name] = v
        ctx.monitor('history_independence', 2)
        if not (got['box'] == got['box-pristine']):
            ctx.violation('distance-depends-on-earlier-calls', f'same arguments, box object re-used: {got["box"]!r}; pristine copies: {got["box-pristine"]!r} (after {op}, order {order})', witness=w)
            ok = False
        if not (got['inv'] == got['inv-pristine']):
            ctx.violation('distance-depends-on-earlier-calls:inv', f'inverse-box object re-used: {got["inv"]!r}; pristine copies: {got["inv-pristine"]!r} (after {op}, order {order})', witness=w)
            ok = False
        ctx.monitor('inverse_flag')
        if abs(got['inv'] - got['box']) > 1e-9 * float(np.abs(use_box).max()):
            ctx.violation('distance-inverse-flag-differs', f'box: {got["box"]:.12g}, inverse box with inv=True: {got["inv"]:.12g}', witness=w)
        if not ok:
            return
    ctx.nontrivial(('session', tuple(sorted(set(hist)))))


def run_case(ctx, case):
    if 'session' in case:
        return run_session(ctx, case)
    rng = ctx.rng('batch', case['batch'])
    for it in range(50):
        bcls = BOXES[int(rng.integers(0, 3))]
        pcls = PLACES[int(rng.integers(0, len(PLACES)))]
        box = gen_box(rng, bcls)
        pa, pb = gen_points(rng, pcls, box)
        na = int(rng.integers(1, 11))
        res_a = make_residue(rng, pa, na)
        as_res = rng.random() < 0.5
        other = make_residue(rng, pb, int(rng.integers(1, 11))) if as_res else pb.copy()
        if as_res and rng.random() < 0.3:
            other = make_multi_residue_molecule(rng, pb)
            ctx.hit('arg:multi-residue-molecule')
        ca = res_a.geometric_center
        cb = other.geometric_center if as_res else other
        frac = np.linalg.solve(box.T, cb - ca)
        tie = np.abs(np.abs(frac - np.round(frac)) - 0.5).min() < 1e-6
        if tie:
            ctx.count('skipped_half_box_tie_generated')
            continue
        scale = float(np.abs(box).max())
        d = dist(ctx, res_a, other, box)
        ctx.count('evaluations')
        ctx.hit('box:' + bcls)
        while _shape:
            ctx.hit('box:triclinic-' + _shape.pop())
        ctx.hit('arg:' + ('residue' if as_res else 'point'))
        ctx.hit('placement:' + pcls)
        wrapped = int(np.sum(np.round(frac) != 0))
        ctx.hit('wrapped:yes' if wrapped else 'wrapped:no')
        if wrapped:
            ctx.nontrivial((bcls, pcls, as_res, wrapped, na // 4))
        w = {'a': ca, 'b': cb, 'box': box, 'd': float(d)}
        plain = float(res_a.distance_to(other))
        if abs(plain - float(np.linalg.norm(cb - ca))) > 1e-9 * max(1.0, plain):
            ctx.violation('distance-plain-wrong', f'non-periodic distance {plain} != {np.linalg.norm(cb - ca)}', witness=w)
        # symmetry (needs a residue on both sides)
        if as_res:
            d2 = dist(ctx, other, res_a, box)
            ctx.monitor('symmetry')
            if abs(d2 - d) > 1e-9 * scale:
                ctx.violation('distance-asymmetric', f'd(a,b)={d:.12g} d(b,a)={d2:.12g}', witness=w)
        # integer lattice shifts of either argument
        for _ in range(2):
            nshift = rng.integers(-3, 4, 3)
            shift = nshift.astype(float) @ box
            if rng.random() < 0.5 or not as_res:
                moved = res_a.copy()
                moved.move(shift)
                d3 = dist(ctx, moved, other, box)
            else:
                moved = other.copy()
                moved.move(shift)
                d3 = dist(ctx, res_a, moved, box)
            ctx.monitor('lattice_shift')
            if abs(d3 - d) > 1e-9 * scale * 10:
                ctx.violation('distance-not-lattice-invariant',
                              f'{d:.12g} -> {d3:.12g} after shifting by {nshift.tolist()} box vectors', witness=dict(w, shift=nshift))
        # inverse flag
        d4 = dist(ctx, res_a, other, np.linalg.inv(box), inv=True)
        ctx.monitor('inverse_flag')
        if abs(d4 - d) > 1e-9 * scale:
            ctx.violation('distance-inverse-flag-differs', f'box: {d:.12g}, inverse box with inv=True: {d4:.12g}', witness=w)
        if it == 0 and case['batch'] < 4:
            ctx.sample({'box': box, 'centre_a': ca, 'centre_b': cb, 'argument': 'residue' if as_res else 'point',
                        'periodic': float(d), 'plain': plain})
