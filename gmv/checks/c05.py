"""
C05 - system extrapolation conserves molecules, order, numbering, box and title.

Deciding monitor: conservation / exactly-once over three independent
observations of one real Manager run: (1) the generator's ground truth of the
input system, (2) the event log of ExchangeMap.__call__ (argument and result
snapshots, in order) and GroFile.writeline, (3) the output file parsed by the
independent reader ref.ref_gro_read (and re-loaded with System).  Written
molecule i <-> i-th map call <-> i-th eligible input instance.
"""
import os
import shutil
import tempfile

import numpy as np

from .. import carrier, core, cover, emmon, gen, ref, world
from . import c13

LEVEL = 'exploration'
JOBS = {'quick': 4, 'thorough': 16}
REQUIRED_MONITORS = ('output_vs_truth', 'map_call_log', 'early_extrapolation_refused', 'em_shape_contract')
REQUIRED_CLASSES = ('species:unmapped-interleaved', 'solvent', 'box:triclinic', 'box:rect', 'ref:1-atom', 'ref:2-atoms',
                    'ref:general', 'multi-residue', 'order:random', 'order:blocks', 'order:alternating', 'shipped-bmim-bf4',
                    'early:no-maps', 'early:no-end-molecules', 'early:partial-maps', 'residue-numbers:gaps-inside-a-mapped-multi-residue-molecule', 'output-atoms:>=100000', 'target:one-atom-first-in-file', 'species:homopolymer-neighbours',
                    'carrier:relative-path', 'carrier:handle', 'carrier:handle-relative-then-chdir', 'settings:warnings-as-errors')
RULE = ('generated systems: 2-4 species (1-, 2-, many-bead; single and multi-residue) + solvent, 1..60 instances each in '
        'random/blocked/alternating order, a random non-empty subset of species given an end molecule, rectangular and '
        'triclinic boxes, s in {0.3,0.5,1,1.5}; plus the shipped BMIM/BF4 box. Non-trivial: at least two mapped species or a '
        'mapped and an unmapped species interleaved. distinct = distinct (species sizes, mapped subset, order, box, s, n bucket)')
ASSUMPTIONS = [
    'reference and target of a species have the same number of residues; species have distinct residue signatures',
    'end molecules carry no velocities; totals stay below 100000 atoms (no number wrap in the output)',
    'coordinates compared to the precision of the coordinate format (0.5e-3 nm + 1e-9); for references of fewer than three '
    'atoms only the invariants of C02 (distance to the anchor atom; along/away from the bond for two atoms)',
    'alignment quality is irrelevant here: STEPS_FACTOR is lowered to 2-5',
]
_cov = cover.Coverage()
_tmp = {}
_log = {'calls': [], 'writes': []}


def setup(ctx):
    from gaddlemaps import Manager
    _cov.watch_attr(Manager, 'extrapolate_system', 'Manager.extrapolate_system')
    _cov.watch(Manager.complete_correspondence.fget, 'Manager.complete_correspondence')
    _cov.start()

    def on_call(emap, model, arg, arg_pos, out):
        _log['calls'].append({'map': id(emap), 'name': arg.name, 'arg_pos': arg_pos, 'arg_resids': list(arg.resids),
                              'out_pos': np.array(out.atoms_positions, float), 'out_resids': list(out.resids)})
    emmon.install_contract(ctx, on_call=on_call, law=False)
    c13.install_line_length_monitor(ctx)
    _tmp['dir'] = tempfile.mkdtemp(prefix='gmv_c05_')


def teardown(ctx):
    _cov.stop()
    ctx.take_coverage(_cov)
    shutil.rmtree(_tmp['dir'], ignore_errors=True)


def cases(ctx):
    n = 160 if ctx.tier == 'quick' else 15000
    for i in range(n):
        yield {'kind': 'gen', 'i': i}
    yield {'kind': 'shipped'}
    for k, total in enumerate([100000] if ctx.tier == 'quick' else [99999, 100000, 100001, 100002, 123456, 200003]):
        yield {'kind': 'gen', 'i': 100000 + k, 'big': total}


def split_molecules(records, sizes_in_order):
    out, k = [], 0
    for s in sizes_in_order:
        out.append(records[k:k + s])
        k += s
    return out


def judge_output(ctx, out_path, title, box, eligible, end_sizes, end_atoms, man, w, precision=0.5e-3):
    """eligible: list of dict(name, coords, resids) in file order."""
    try:
        r = ref.ref_gro_read(out_path)
    except Exception as exc:  # noqa
        ctx.violation(f'output-unreadable:{type(exc).__name__}', str(exc)[:200], witness=w)
        return
    ctx.monitor('output_vs_truth')
    total = sum(end_sizes[e['name']] for e in eligible)
    if r['natoms'] != total or len(r['records']) != total:
        ctx.violation('atom-total-wrong', f'{len(r["records"])} atoms written, expected {total} for {len(eligible)} mapped molecules', witness=w)
        return
    if r['title'] != title:
        ctx.violation('title-not-copied', f'{r["title"]!r} != {title!r}', witness=w)
    bm = np.diag(box) if np.asarray(box).shape == (3,) else np.asarray(box)
    if np.abs(r['box'] - bm).max() > 5e-6 + 1e-9:
        ctx.violation('box-not-copied', f'{r["box"].tolist()} != {bm.tolist()}', witness=w)
    ids = [rec[3] for rec in r['records']]
    if ids != [(k + 1) % 100000 for k in range(total)]:
        first = next(k for k, (a, b) in enumerate(zip(ids, range(1, total + 1))) if a != b % 100000)
        ctx.violation('atom-numbers-not-consecutive', f'atom {first} has number {ids[first]}', witness=w)
    mols = split_molecules(r['records'], [end_sizes[e['name']] for e in eligible])
    calls = _log['calls']
    ctx.monitor('map_call_log')
    if len(calls) != len(eligible):
        ctx.violation('map-calls-count', f'{len(calls)} exchange-map calls for {len(eligible)} eligible molecules', witness=w)
        return
    for k, (recs, e, call) in enumerate(zip(mols, eligible, calls)):
        names = [(rec[2], rec[1]) for rec in recs]
        if names != end_atoms[e['name']]:
            ctx.violation('written-molecule-of-wrong-species-or-order', f'output molecule {k}: atoms {names[:4]} but input instance {k} is a {e["name"]}', witness=w)
            return
        # i-th map call <-> i-th eligible input instance (identified by its unique coordinates)
        if call['arg_pos'].shape != e['coords'].shape or np.abs(call['arg_pos'] - e['coords']).max() > 1e-12:
            ctx.violation('map-applied-to-wrong-instance', f'map call {k} did not receive input molecule {k} ({e["name"]})', witness=w)
            return
        if call['map'] != id(man.molecule_correspondence[e['name']].exchange_map):
            ctx.violation('wrong-species-map-used', f'map call {k} used the map of another species', witness=w)
            return
        # residue numbers
        res_runs = []
        for rec in recs:
            if not res_runs or res_runs[-1] != rec[0]:
                res_runs.append(rec[0])
        if res_runs != e['resids']:
            ctx.violation('residue-numbers-not-transferred', f'output molecule {k} has residue numbers {res_runs}, input molecule {e["resids"]}', witness=w)
            return
        xyz = np.array([rec[4] for rec in recs])
        nref = len(e['coords'])
        if nref >= 3:
            err = float(np.abs(xyz - call['out_pos']).max())
            if err > precision + 1e-9:
                ctx.violation('written-coordinates-differ-from-map-result', f'output molecule {k}: max difference {err:.3g} to what the map returned', witness=w)
                return
            # and the map is a function of the instance: applying it again gives the same
            again = np.array(man.molecule_correspondence[e['name']].exchange_map(e['molecule']).atoms_positions)
            err = float(np.abs(xyz - again).max())
            if err > precision + 1e-9:
                ctx.violation('written-coordinates-differ-from-species-map', f'output molecule {k}: max difference {err:.3g} to map(instance)', witness=w)
                return
        else:
            # only what C02 leaves determined
            model = man.molecule_correspondence[e['name']].exchange_map.__dict__.get('_gmv_model')
            a0 = e['coords'][0]
            if model is not None:
                s = model.s
                for j in range(len(xyz)):
                    want = s * np.linalg.norm(model.tgt_pos[j] - model.ref_pos[0])
                    got = np.linalg.norm(xyz[j] - a0)
                    if abs(got - want) > 2 * precision + 1e-9:
                        ctx.violation('small-reference-distance-to-anchor-wrong', f'output molecule {k} atom {j}: distance to the anchor atom {got:.4f}, expected {want:.4f}', witness=w)
                        return
                    if nref == 2:
                        u0 = model.ref_pos[1] - model.ref_pos[0]
                        u0 /= np.linalg.norm(u0)
                        u1 = e['coords'][1] - e['coords'][0]
                        u1 /= np.linalg.norm(u1)
                        ax_want = s * float((model.tgt_pos[j] - model.ref_pos[0]) @ u0)
                        ax_got = float((xyz[j] - a0) @ u1)
                        if abs(ax_got - ax_want) > 3 * precision + 1e-9:
                            ctx.violation('two-atom-reference-axial-coordinate-wrong', f'output molecule {k} atom {j}: coordinate along the bond {ax_got:.4f}, expected {ax_want:.4f}', witness=w)
                            return
    # the writer saw exactly these records
    return r


def run_gen(ctx, case):
    import contextlib
    with contextlib.ExitStack() as stack:
        _run_gen(ctx, case, stack)


def _run_gen(ctx, case, stack):
    from gaddlemaps import Manager, Alignment
    from gaddlemaps.components import Molecule
    i = case['i']
    rng = ctx.rng('gen', i)
    root = os.path.join(_tmp['dir'], f'w{os.getpid()}_{i}')
    order = ['random', 'blocks', 'alternating'][i % 3]
    box_kind = 'triclinic' if i % 4 == 1 else 'rect'
    hint = None
    if i % 5 == 0:
        hint = [[1], [2], [int(rng.integers(3, 8))]]            # a 1-bead, a 2-bead and a many-bead species
    big = case.get('big')
    if big:
        # an output of `big` atoms (around the point where the atom count no longer fits five figures): two species of
        # 36 and 35 target atoms, x and y instances with 36 x + 35 y = big
        x = big % 35
        x += 35 * ((big // 71 - x) // 35)
        y = (big - 36 * x) // 35
        assert 36 * x + 35 * y == big and x > 0 and y > 0
        w = world.make_world(rng, root, nspecies=2, sizes_hint=[[6], [5]], end_extra=30, end_for=['SPA', 'SPB'],
                             counts={'SPA': x, 'SPB': y, 'W': 40}, order=order, box_kind=box_kind, with_vel=False)
        ctx.hit('output-atoms:>=100000' if big >= 100000 else 'output-atoms:99999')
    else:
        w = world.make_world(rng, root, nspecies=3 if hint else None, ninst=(1, 20 if ctx.tier == 'quick' else 60),
                             order=order, box_kind=box_kind, with_vel=bool(rng.random() < 0.3), sizes_hint=hint,
                             end_for=None if not hint else None, resid_mode='gaps' if i % 3 == 1 else 'consecutive',
                             multi_res_prob=0.6 if i % 3 == 1 else 0.35, coarsen=(i % 7 == 3),
                             homopolymer_prob=0.5 if i % 5 == 2 else 0.0,
                             small_prob=0.6 if i % 7 == 3 else 0.3)
        if i % 7 == 3:
            ctx.hit('direction:towards-coarser-resolution')
            if any(len(w['end_species'][n]['atoms']) == 1 for n in w['end_for']):
                ctx.hit('target:one-atom')
                first = next((x for x in w['sequence'] if x in w['end_for']), None)
                if first is not None and len(w['end_species'][first]['atoms']) == 1:
                    ctx.hit('target:one-atom-first-in-file')
    if i % 3 == 1 and not big:
        ctx.hit('residue-numbers:gaps-and-restarts')
        if any(len(w['species'][n]['sizes']) > 1 for n in w['end_for']):
            ctx.hit('residue-numbers:gaps-inside-a-mapped-multi-residue-molecule')
    for n_ in w['end_for']:
        if w['species'][n_].get('homopolymer') or w['end_species'][n_].get('homopolymer'):
            ctx.hit('species:homopolymer-mapped')
            if any(a == n_ and b == n_ for a, b in zip(w['sequence'], w['sequence'][1:])):
                ctx.hit('species:homopolymer-neighbours')
    if len(w['title'].encode()) != len(w['title']):
        ctx.hit('title:multibyte-characters')
    s = float(rng.choice([0.3, 0.5, 1.0, 1.5]))
    out = os.path.join(root, 'mapped.gro')
    wit = {'species': {k: v['sizes'] for k, v in w['species'].items()}, 'end_sizes': {k: w['end_species'][k]['sizes'] for k in w['end_for']},
           'end_for': w['end_for'], 'sequence': w['sequence'][:60], 'box': w['box'], 'scale': s, 'order': order}
    try:
        old = Alignment.STEPS_FACTOR
        Alignment.STEPS_FACTOR = int(rng.integers(2, 6))
        np.random.seed(ctx.libseed('gen', i))
        # the input file reaches the manager as a path, a name relative to a working directory that is left again before
        # anything is written, or an open handle (see carrier.py); where the process goes after opening a relative name,
        # a file of the same name holds the same system somewhere else in space
        kind = carrier.next_kind(ctx)
        wit['carrier'] = kind
        decoy = os.path.join(root, 'decoy_system.gro')
        gen.write_gro(decoy, w['title'], [(r[0], r[1], r[2], r[3], tuple(np.asarray(r[4], float) + 0.7)) + tuple(r[5:]) for r in w['records']], w['box'])
        tops = [w['files'][n]['top_start'] for n in w['files']]
        cm = carrier.carried(w['system_gro'], kind, decoy=decoy)
        if kind == 'relative-path':
            with cm as given:
                man = Manager.from_files(given, *tops)
        else:
            man = Manager.from_files(stack.enter_context(cm), *tops)
        # --- requesting extrapolation before anything is attached: error, no file
        ctx.monitor('early_extrapolation_refused')
        for stage in ('no-end-molecules', 'no-maps'):
            if stage == 'no-maps':
                for n in w['end_for']:
                    f = w['files'][n]
                    man.add_end_molecule(Molecule.from_files(f['gro_end'], f['top_end']))
            try:
                man.extrapolate_system(out)
                ctx.violation(f'early-extrapolation-accepted:{stage}', 'extrapolate_system returned normally before the maps exist', witness=wit)
            except Exception:  # noqa
                pass
            ctx.hit('early:' + stage)
            if os.path.exists(out):
                ctx.violation(f'early-extrapolation-left-a-file:{stage}', f'{os.path.getsize(out)} bytes written although extrapolation was refused', witness=wit)
                os.remove(out)
        man.align_molecules()
        # partially prepared: maps exist for some species, another species got its end molecule afterwards
        if len(w['end_for']) >= 2 and i % 2 == 0:
            late = w['end_for'][int(rng.integers(0, len(w['end_for'])))]
            ali = man.molecule_correspondence[late]
            late_end = ali.end
            ali.end = None
            man.calculate_exchange_maps(scale_factor=s)          # maps of the other species only
            ali.end = late_end                                   # both resolutions attached, no map yet
            try:
                man.extrapolate_system(out)
                ctx.violation('early-extrapolation-accepted:partial-maps',
                              f'extrapolate_system returned normally although species {late} has both resolutions but no exchange map', witness=wit)
            except Exception:  # noqa
                pass
            ctx.hit('early:partial-maps')
            if os.path.exists(out):
                ctx.violation('early-extrapolation-left-a-file:partial-maps', f'{os.path.getsize(out)} bytes written although extrapolation was refused', witness=wit)
                os.remove(out)
        man.calculate_exchange_maps(scale_factor=s)
        del _log['calls'][:]
        # the caller may run with warnings turned into errors: the unchanged library writes the file without a word
        caller = core.next_settings(ctx, ('default', 'warnings-as-errors'))
        wit['caller_settings'] = caller
        with core.settings(caller):
            man.extrapolate_system(out)
    except Exception as exc:  # noqa
        ctx.violation(f'pipeline-raises:{type(exc).__name__}', str(exc)[:300], witness=wit)
        shutil.rmtree(root, ignore_errors=True)
        return
    finally:
        Alignment.STEPS_FACTOR = old
    ctx.count('evaluations')
    mols = list(man.system)
    loaded = [ins for ins in w['instances'] if ins['name'] != 'W']
    eligible = []
    for ins, mol in zip(loaded, mols):
        if ins['name'] in w['end_for']:
            eligible.append({'name': ins['name'], 'coords': ins['coords'], 'resids': ins['resids'], 'molecule': mol})
    end_sizes = {n: len(w['end_species'][n]['atoms']) for n in w['end_for']}
    end_atoms = {n: [(a[0], a[1]) for a in w['end_species'][n]['atoms']] for n in w['end_for']}
    calls_before = list(_log['calls'])
    judge_output(ctx, out, w['title'], w['box'], eligible, end_sizes, end_atoms, man, wit)
    _log['calls'][:] = []
    # re-load the output with the library as well - unless two molecules that became neighbours in the output (the
    # unmapped ones between them are gone) meet with the same (residue number, residue name): the file is then right by
    # the statement (each molecule carries the numbers of its input molecule) but its residues cannot be told apart
    ends = w['end_species']
    ambiguous = any((a['resids'][-1] % 100000, ends[a['name']]['resnames'][-1]) == (b['resids'][0] % 100000, ends[b['name']]['resnames'][0])
                    for a, b in zip(eligible, eligible[1:]))
    if ambiguous:
        ctx.count('reload_skipped_same_number_and_name_meet')
    try:
        from gaddlemaps.components import System
        if ambiguous:
            raise StopIteration
        s2 = System(out, *[w['files'][n]['top_end'] for n in w['end_for']])
        if len(s2) != len(eligible) or [m.name for m in s2] != [e['name'] for e in eligible]:
            ctx.violation('output-reloaded-differs', f'System(output) has {len(s2)} molecules, expected {len(eligible)} in input order', witness=wit)
    except StopIteration:
        pass
    except Exception as exc:  # noqa
        ctx.violation(f'output-not-loadable-with-end-topologies:{type(exc).__name__}', str(exc)[:200], witness=wit)
    # classes
    mapped = set(w['end_for'])
    seqn = [x for x in w['sequence']]
    names_all = [n for n in w['species'] if n != 'W']
    if any(n not in mapped for n in names_all):
        ctx.hit('species:unmapped-interleaved')
    if 'W' in seqn:
        ctx.hit('solvent')
    ctx.hit('box:' + box_kind)
    ctx.hit('order:' + order)
    for n in mapped:
        k = len(w['species'][n]['atoms'])
        ctx.hit('ref:' + ('1-atom' if k == 1 else '2-atoms' if k == 2 else 'general'))
        if len(w['species'][n]['sizes']) > 1:
            ctx.hit('multi-residue')
    if len(mapped) >= 2 or len(names_all) > len(mapped):
        ctx.nontrivial((tuple(sorted((n, tuple(w['species'][n]['sizes'])) for n in names_all)), tuple(sorted(mapped)), order, box_kind, s, len(seqn) // 10))
    if i < 2:
        ctx.sample({'species_sizes': wit['species'], 'end_sizes': wit['end_sizes'], 'mapped_species': w['end_for'], 'order': order,
                    'sequence_head': w['sequence'][:25], 'scale': s, 'box': w['box'], 'molecules_in': len(w['sequence']),
                    'molecules_out': len(eligible), 'map_calls_logged': len(calls_before)})
    shutil.rmtree(root, ignore_errors=True)


def run_shipped(ctx, case):
    import gaddlemaps
    from gaddlemaps import Manager, Alignment
    from gaddlemaps.components import Molecule
    d = os.path.join(os.path.dirname(gaddlemaps.__file__), 'data')
    out = os.path.join(_tmp['dir'], 'bmimbf4_mapped.gro')
    sysf = os.path.join(d, 'system_bmimbf4_cg.gro')
    old = Alignment.STEPS_FACTOR
    Alignment.STEPS_FACTOR = 5
    try:
        np.random.seed(ctx.libseed('shipped'))
        man = Manager.from_files(sysf, os.path.join(d, 'BMIM_CG.itp'), os.path.join(d, 'BF4_CG.itp'))
        man.add_end_molecules(Molecule.from_files(os.path.join(d, 'BMIM_AA.gro'), os.path.join(d, 'BMIM_AA.itp')),
                              Molecule.from_files(os.path.join(d, 'BF4_AA.gro'), os.path.join(d, 'BF4_AA.itp')))
        man.align_molecules()
        man.calculate_exchange_maps(scale_factor=0.5)
        del _log['calls'][:]
        man.extrapolate_system(out)
    finally:
        Alignment.STEPS_FACTOR = old
    ctx.count('evaluations')
    truth = ref.ref_gro_read(sysf)
    mols = list(man.system)
    eligible = []
    for m in mols:
        eligible.append({'name': m.name, 'coords': np.array(m.atoms_positions), 'resids': list(m.resids), 'molecule': m})
    ends = {n: man.molecule_correspondence[n].end for n in ('BMIM', 'BF4')}
    end_sizes = {n: len(e) for n, e in ends.items()}
    end_atoms = {n: [(a.name, a.resname) for a in e] for n, e in ends.items()}
    judge_output(ctx, out, truth['title'], truth['box'], eligible, end_sizes, end_atoms, man,
                 {'shipped': 'system_bmimbf4_cg.gro', 'molecules': len(mols)})
    _log['calls'][:] = []
    ctx.hit('shipped-bmim-bf4')
    ctx.nontrivial(('shipped', 'bmim-bf4'))
    ctx.sample({'shipped': 'system_bmimbf4_cg.gro', 'molecules_in': len(mols), 'atoms_out': sum(end_sizes[e['name']] for e in eligible)})


def run_case(ctx, case):
    {'gen': run_gen, 'shipped': run_shipped}[case['kind']](ctx, case)
