"""
C14 - incomplete or truncated .gro output is never accepted as a valid system.

Fault enumeration.  (1) Crash points of the writer: every statement boundary of
the writer functions (sys.monitoring failpoints, faults.CrashRecorder) under
four buffering models; every distinct surviving on-disk image is fed to the
reader.  (2) Every byte-prefix of the in-progress stream of each writer run.
(3) Every byte-level truncation of complete files (all shipped .gro files and
generated ones).  (4) Real-kill cross-check of the snapshot technique.
Oracle: an image that ends before the box line of the complete file (or is not
a prefix of it at all) must make the reader raise; an accepted image must
return exactly the complete file's records.
"""
import json
import os
import time
import shutil
import subprocess
import sys
import tempfile

import numpy as np

from .. import bus, core, cover, faults, grospec

LEVEL = 'fault_enumeration'
JOBS = {'quick': 4, 'thorough': 16}
REQUIRED_MONITORS = ('other_entry_points', 'crash_image_read', 'prefix_read', 'inprogress_prefix_read', 'real_kill_crosscheck',
                     'abandoned_writer_read')
REQUIRED_CLASSES = ('buffering:default', 'buffering:line', 'buffering:flush-per-write', 'buffering:tiny-13',
                    'count:declared', 'count:backfilled', 'vel:yes', 'vel:no', 'crash:inside-close',
                    'crash:between-records', 'crash:mid-record', 'prefix:shipped', 'prefix:generated',
                    'accepted:complete-file', 'accepted:inside-box-line', 'api:extrapolate_system', 'api:write_gro',
                    'api:write_comparative_gro', 'prefix:large-file', 'names:first-records-numeric',
                    'abandoned:del', 'abandoned:exception-unwinds', 'abandoned:process-ends', 'abandoned:after-a-refused-batch',
                    'output-path:holds-the-file-of-an-earlier-run')
RULE = ('fault space: (writer run x buffering model x writer statement boundary) -> distinct on-disk images; every byte '
        'prefix of each in-progress stream; every byte prefix of complete files. A case is one (image or prefix) fed to '
        'the reader. Non-trivial: the image is non-empty and is not the complete file. distinct = distinct images per '
        'writer run (by content) + distinct (file, offset) prefixes')
ASSUMPTIONS = [
    '"rejected" = GroFile(path) or its readlines() raises any exception',
    'a crash leaves on disk exactly the bytes that have reached the OS (observed through a second descriptor); torn writes inside one write(2) call are covered by the byte-prefix sweeps',
    'the kill can happen at any writer statement, also between the steps of close()',
    'a writer that is dropped without close() (reference deleted, exception unwinding its owner, program ending) is a writer that stopped before it was closed',
]
_cov = cover.Coverage()
_tmp = {}


def setup(ctx):
    from gaddlemaps.parsers import GroFile
    for name in ('_load_and_verify', '_load_box_matrix', 'seek_atom', 'readline', 'parse_atomline',
                 'determine_format', '_write_closing_info', '_setup_write_file'):
        f = GroFile.__dict__.get(name)
        f = getattr(f, '__func__', f)
        if f is not None:
            _cov.watch(f, f'GroFile.{name}')
    _cov.start()
    _tmp['dir'] = tempfile.mkdtemp(prefix='gmv_c14_')


def teardown(ctx):
    _cov.stop()
    ctx.take_coverage(_cov)
    shutil.rmtree(_tmp['dir'], ignore_errors=True)


def shipped_gro():
    import gaddlemaps
    d = os.path.join(os.path.dirname(gaddlemaps.__file__), 'data')
    return sorted(f for f in os.listdir(d) if f.endswith('.gro') and os.path.getsize(os.path.join(d, f)) > 0)


CHUNK = 12000


def cases(ctx):
    import gaddlemaps
    d = os.path.join(os.path.dirname(gaddlemaps.__file__), 'data')
    nwr = 24 if ctx.tier == 'quick' else 600
    for i in range(nwr):
        for model in faults.BUFFER_MODELS:
            yield {'kind': 'writer', 'i': i, 'model': model}
    for f in shipped_gro():
        size = os.path.getsize(os.path.join(d, f))
        for lo in range(0, size, CHUNK):
            yield {'kind': 'shipped', 'file': f, 'lo': lo, 'hi': min(size, lo + CHUNK)}
    for i in range(10 if ctx.tier == 'quick' else 400):
        yield {'kind': 'generated', 'i': i}
    for i in range(4 if ctx.tier == 'quick' else 48):
        yield {'kind': 'kill', 'i': i}
    for i, n in enumerate([100003] if ctx.tier == 'quick' else [99999, 100000, 100001, 100003, 100257, 200004]):
        yield {'kind': 'large', 'i': i, 'n': n}
    for i in range(6 if ctx.tier == 'quick' else 120):
        yield {'kind': 'api', 'i': i}
    for i in range(12 if ctx.tier == 'quick' else 240):
        yield {'kind': 'abandoned', 'i': i}


def read_image(path):
    from gaddlemaps.parsers import GroFile
    try:
        g = GroFile(path)
        recs = g.readlines()
        g.close()
        return True, recs
    except Exception as exc:  # noqa
        return False, type(exc).__name__


def read_image_generic(path):
    """The same file through the other two entry points: open_coordinate_file (whatever parser is registered for the
    extension) and SystemGro.  Returns the list of entry points that accepted it."""
    from gaddlemaps.parsers import open_coordinate_file
    from gaddlemaps.components import SystemGro
    accepted = []
    try:
        f = open_coordinate_file(path)
        try:
            f.readlines()
        finally:
            f.close()
        accepted.append('open_coordinate_file')
    except Exception:  # noqa
        pass
    try:
        s = SystemGro(path)
        sum(len(r) for r in s)
        accepted.append('SystemGro')
    except Exception:  # noqa
        pass
    return accepted


def box_start_of(complete):
    body = complete[:-1] if complete.endswith(b'\n') else complete
    return body.rfind(b'\n') + 1


def judge_image(ctx, image, complete, complete_recs, path, where, monitor):
    """Feed one image to the reader and judge the outcome."""
    with open(path, 'wb') as fh:
        fh.write(image)
    ok, out = read_image(path)
    ctx.monitor(monitor)
    ctx.count('evaluations')
    if not ok:
        ctx.count('rejected:' + out)
        if monitor in ('crash_image_read', 'abandoned_writer_read') and (complete is None or len(image) <= box_start_of(complete)):
            # what GroFile refuses must be refused through the other entry points as well
            ctx.monitor('other_entry_points')
            for who in read_image_generic(path):
                ctx.violation(f'accepted-truncation-before-box-line:{who}', f'{who} accepts a partial file that GroFile refuses ({where})',
                              witness=dict(where, image_len=len(image), image_tail=image[-200:].decode(errors='replace')))
        return False
    is_prefix = complete is not None and complete.startswith(image)
    bstart = box_start_of(complete) if complete is not None else None
    w = dict(where, image_len=len(image), image_tail=image[-200:].decode(errors='replace'),
             complete_len=None if complete is None else len(complete), box_line_start=bstart)
    if not is_prefix:
        ctx.violation('accepted-image-that-is-not-a-prefix-of-the-complete-file',
                      f'reader returned {len(out)} records from a partial file ({where})', witness=w)
    elif len(image) <= bstart:
        ctx.violation('accepted-truncation-before-box-line',
                      f'{len(image)} bytes (box line starts at {bstart}) accepted with {len(out)} records ({where})', witness=w)
    elif [tuple(r) for r in out] != complete_recs:
        ctx.violation('accepted-truncation-with-different-records',
                      f'accepted prefix of {len(image)} bytes returns other records than the complete file ({where})', witness=w)
    else:
        ctx.hit('accepted:complete-file' if len(image) == len(complete) else 'accepted:inside-box-line')
    return True


def run_writer(ctx, case):
    import gaddlemaps.parsers as P
    i, model = case['i'], case['model']
    rng = ctx.rng('writer', i)
    spec = grospec.gen_spec(rng, nmax=12 if ctx.tier == 'quick' else 50, force={'declare': bool(i % 2)},
                            with_vel=bool((i // 2) % 2))
    spec['use_writelines'] = (i % 5 == 0)
    if i % 4 in (0, 1):
        # the first records consist of numbers only (residue '2', atoms '1', 'INF', '1e3' ...): lines that could be taken
        # for a box line by a reader that is not told how many atoms to expect
        for k, rec in enumerate(spec['records'][:int(rng.integers(1, 4))]):
            rec['resname'] = ['2', '1', 'INF', 'NAN', '1e3', '7'][int(rng.integers(0, 6))]
            rec['name'] = ['1', '2', '3', 'INF', '1e3', '0'][int(rng.integers(0, 6))]
        ctx.hit('names:first-records-numeric')
    path = os.path.join(_tmp['dir'], f'w{os.getpid()}.gro')
    scratch = os.path.join(_tmp['dir'], f'r{os.getpid()}.gro')
    if os.path.exists(path):
        os.remove(path)
    earlier = None
    if i % 3 == 1:
        # the output path already holds the complete file of an earlier run of the same job (same records, other
        # coordinates): what a writer that dies leaves there is judged like any other partial output - unless it is still,
        # byte for byte, the earlier file (the writer had not touched the path yet)
        import copy
        prev = copy.deepcopy(spec)
        prev['schedule'], prev['attr_history'] = None, None
        for rec_ in prev['records']:
            rec_['xyz'] = [round(-0.5 * v, spec['dec']) for v in rec_['xyz']]
        grospec.write_spec(prev, path)
        with open(path, 'rb') as fh:
            earlier = fh.read()
        ctx.hit('output-path:holds-the-file-of-an-earlier-run')
    rec = faults.CrashRecorder(path)
    with bus.patched(P, 'open', faults.make_open(model)):
        use_with = (i % 3 == 0)

        def work():
            if use_with:
                g = grospec.write_spec(spec, path, P.GroFile, close=False)
                g.__exit__(None, None, None)
            else:
                grospec.write_spec(spec, path, P.GroFile)
        rec.run(work)
    with open(path, 'rb') as fh:
        complete = fh.read()
    ok, recs = read_image(path)
    if not ok:
        ctx.violation('complete-file-rejected', f'the finished file cannot be read: {recs}', witness={'file': complete.decode(errors='replace')[:1500]})
        return
    complete_recs = [tuple(r) for r in recs]
    ctx.hit('buffering:' + model)
    ctx.hit('count:' + ('declared' if spec['declare_count'] else 'backfilled'))
    ctx.hit('vel:' + ('yes' if spec['with_vel'] else 'no'))
    close_labels = {'GroFile.close', 'GroFile._write_closing_info', 'GroFile.seek_atom', 'CoordinatesParser.__exit__'}
    seen_in_close = set()
    for label, line, idx in rec.events:
        if label in close_labels:
            seen_in_close.add(idx)
    nrec = len(spec['records'])
    for idx, image in enumerate(rec.images):
        if image is None:
            continue
        if earlier is not None and image == earlier:
            ctx.count('images_still_the_earlier_file')
            continue
        where = {'writer_run': i, 'buffering': model, 'image_index': idx, 'n_records': nrec,
                 'first_seen_at': next((f'{l}:{ln}' for l, ln, k in rec.events if k == idx), None)}
        judge_image(ctx, image, complete, complete_recs, scratch, where, 'crash_image_read')
        if image and image != complete:
            ctx.nontrivial(('img', i, model, idx))
            if idx in seen_in_close:
                ctx.hit('crash:inside-close')
            if image.endswith(b'\n'):
                ctx.hit('crash:between-records')
            else:
                ctx.hit('crash:mid-record')
    ctx.count('crash_events', len(rec.events))
    ctx.count('distinct_crash_images', len(rec.images))
    # every byte prefix of the in-progress stream (what is there just before close() starts)
    if model == 'flush-per-write':
        stream = max((im for idx, im in enumerate(rec.images) if im is not None and im != earlier and
                      (idx not in seen_in_close or not complete.startswith(im))), key=len, default=b'')
        for k in range(len(stream) + 1):
            judge_image(ctx, stream[:k], complete, complete_recs, scratch,
                        {'writer_run': i, 'inprogress_prefix': k}, 'inprogress_prefix_read')
            ctx.nontrivial(('inprog', i, k))
    if i < 2 and model == 'flush-per-write':
        ctx.sample({'kind': 'writer run', 'records': nrec, 'declare_count': spec['declare_count'], 'buffering': model,
                    'statement_events': len(rec.events), 'distinct_images': len(rec.images),
                    'image_lengths': [None if im is None else len(im) for im in rec.images][:40],
                    'complete_len': len(complete)})


# exploration budget of the byte-prefix sweeps of one process (a healthy tree needs about a tenth of it)
SWEEP_BUDGET_S = {'quick': 240, 'thorough': 7200}
_spent = {'sweeps': 0.0}


def sweep_prefixes(ctx, complete, lo, hi, label, scratch):
    """Every truncation length in [lo, hi) of a complete file."""
    with open(scratch, 'wb') as fh:
        fh.write(complete)
    ok, recs = read_image(scratch)
    if not ok:
        ctx.violation('complete-file-rejected', f'{label}: {recs}')
        return
    complete_recs = [tuple(r) for r in recs]
    bstart = box_start_of(complete)
    accepted = []
    with open(scratch, 'wb') as fh:
        fh.write(complete[:hi])
    t0 = time.time()
    for k in range(hi - 1, lo - 1, -1):
        if time.time() - t0 > 150 or _spent['sweeps'] + time.time() - t0 > SWEEP_BUDGET_S[ctx.tier]:
            # exploration budget, not a verdict: on a healthy tree a chunk takes a few seconds; a reader that no longer
            # refuses early makes every truncation cost a full read
            ctx.note('prefix sweeps were cut short by their time budget (150 s per chunk, '
                     f'{SWEEP_BUDGET_S[ctx.tier]} s per process): first at {label}[{lo}:{hi}] byte {k}')
            ctx.count('prefix_sweeps_cut_short')
            break
        os.truncate(scratch, k)
        ok, out = read_image(scratch)
        ctx.monitor('prefix_read')
        ctx.count('evaluations')
        if not ok:
            ctx.count('rejected:' + out)
            continue
        accepted.append(k)
        w = {'file': label, 'truncated_to': k, 'box_line_start': bstart, 'size': len(complete),
             'tail': complete[max(0, k - 120):k].decode(errors='replace')}
        if k <= bstart:
            ctx.violation('accepted-truncation-before-box-line',
                          f'{label} truncated to {k} bytes (box line starts at {bstart}) was accepted with {len(out)} records', witness=w)
        elif [tuple(r) for r in out] != complete_recs:
            ctx.violation('accepted-truncation-with-different-records', f'{label} truncated to {k} bytes returns other records', witness=w)
        else:
            ctx.hit('accepted:inside-box-line')
    # the other entry points on the truncations right at the start of the box line (all records complete, nothing after)
    for k in range(max(lo, bstart - 2), min(hi, bstart + 1)):
        with open(scratch, 'wb') as fh:
            fh.write(complete[:k])
        ctx.monitor('other_entry_points')
        for who in read_image_generic(scratch):
            ctx.violation(f'accepted-truncation-before-box-line:{who}', f'{label} truncated to {k} bytes (box line starts at {bstart}) is accepted by {who}',
                          witness={'file': label, 'truncated_to': k, 'box_line_start': bstart})
    _spent['sweeps'] += time.time() - t0
    ctx.extra.setdefault('accepted_prefixes', {})
    if accepted:
        ctx.extra['accepted_prefixes'][f'{label}[{lo}:{hi}]'] = {
            'count': len(accepted), 'smallest': min(accepted), 'box_line_start': bstart, 'size': len(complete)}
    return accepted


def run_shipped(ctx, case):
    import gaddlemaps
    d = os.path.join(os.path.dirname(gaddlemaps.__file__), 'data')
    with open(os.path.join(d, case['file']), 'rb') as fh:
        complete = fh.read()
    scratch = os.path.join(_tmp['dir'], f's{os.getpid()}.gro')
    sweep_prefixes(ctx, complete, case['lo'], case['hi'], case['file'], scratch)
    ctx.hit('prefix:shipped')
    ctx.nontrivial(('shipped', case['file'], case['lo']))
    ctx.count('distinct_prefixes', case['hi'] - case['lo'])
    if case['lo'] == 0:
        ctx.sample({'kind': 'byte-prefix sweep', 'file': case['file'], 'size': len(complete),
                    'box_line_start': box_start_of(complete)})


def run_generated(ctx, case):
    import gaddlemaps.parsers as P
    rng = ctx.rng('gen', case['i'])
    spec = grospec.gen_spec(rng, nmax=40, with_vel=bool(case['i'] % 2))
    path = os.path.join(_tmp['dir'], f'g{os.getpid()}.gro')
    scratch = os.path.join(_tmp['dir'], f'h{os.getpid()}.gro')
    grospec.write_spec(spec, path, P.GroFile)
    with open(path, 'rb') as fh:
        complete = fh.read()
    sweep_prefixes(ctx, complete, 0, len(complete), f'generated#{case["i"]}', scratch)
    # the complete file itself
    judge_image(ctx, complete, complete, [tuple(r) for r in read_image(path)[1]], scratch,
                {'file': f'generated#{case["i"]}'}, 'prefix_read')
    ctx.hit('prefix:generated')
    ctx.nontrivial(('generated', case['i']))
    ctx.count('distinct_prefixes', len(complete))
    # SystemGro on a sample of truncations must agree with GroFile
    from gaddlemaps.components import SystemGro
    for k in sorted({int(x) for x in rng.integers(0, len(complete), 6)}):
        with open(scratch, 'wb') as fh:
            fh.write(complete[:k])
        ok, _ = read_image(scratch)
        try:
            s = SystemGro(scratch)
            n = sum(len(r) for r in s)
            sg_ok = True
        except Exception:  # noqa
            sg_ok = False
        ctx.monitor('systemgro_agrees')
        if sg_ok and not ok:
            ctx.violation('systemgro-accepts-what-grofile-rejects', f'truncation to {k} of generated#{case["i"]}')


KILL_DRIVER = r'''
import json, os, sys
sys.path.insert(0, os.environ['VERIF_REPO_PATH'])
sys.path.insert(0, os.environ['VERIF_HOME'])
from gmv import faults, grospec, bus
import gaddlemaps.parsers as P
spec = json.load(open(sys.argv[1]))
path, model, kill_at = sys.argv[2], sys.argv[3], int(sys.argv[4])
rec = faults.CrashRecorder(path)
rec.kill_at = kill_at
with bus.patched(P, 'open', faults.make_open(model)):
    rec.run(lambda: grospec.write_spec(spec, path, P.GroFile))
'''


def run_kill(ctx, case):
    """Cross-check of the snapshot technique: really kill a writer process at
    the k-th writer statement and compare the file it leaves with the image the
    in-process recorder took at the same event."""
    import gaddlemaps.parsers as P
    i = case['i']
    rng = ctx.rng('kill', i)
    spec = grospec.gen_spec(rng, nmax=6, force={'declare': bool(i % 2)})
    model = faults.BUFFER_MODELS[i % len(faults.BUFFER_MODELS)]
    path = os.path.join(_tmp['dir'], f'k{os.getpid()}.gro')
    specfile = os.path.join(_tmp['dir'], f'k{os.getpid()}.json')
    with open(specfile, 'w') as fh:
        json.dump(spec, fh)
    if os.path.exists(path):
        os.remove(path)
    rec = faults.CrashRecorder(path)
    with bus.patched(P, 'open', faults.make_open(model)):
        rec.run(lambda: grospec.write_spec(spec, path, P.GroFile))
    nev = len(rec.events)
    picks = sorted({int(x) for x in rng.integers(1, nev + 1, 3)} | {nev - 1})
    env = dict(os.environ, VERIF_REPO_PATH=core.REPO, VERIF_HOME=core.VERIF)
    for k in picks:
        kpath = os.path.join(_tmp['dir'], f'kk{os.getpid()}.gro')
        if os.path.exists(kpath):
            os.remove(kpath)
        try:
            subprocess.run([sys.executable, '-W', 'ignore', '-c', KILL_DRIVER, specfile, kpath, model, str(k)],
                           env=env, timeout=120, stdout=subprocess.DEVNULL, stderr=subprocess.DEVNULL)
        except subprocess.TimeoutExpired:
            ctx.inconclusive_because('real-kill driver timed out')
            return
        left = open(kpath, 'rb').read() if os.path.exists(kpath) else None
        snap = rec.images[rec.events[k - 1][2]]
        ctx.monitor('real_kill_crosscheck')
        ctx.count('evaluations')
        if left != snap:
            ctx.note(f'real kill at event {k} ({model}) left {None if left is None else len(left)} bytes, '
                     f'in-process snapshot had {None if snap is None else len(snap)}')
            ctx.count('real_kill_mismatch')
        if left is not None:
            with open(path, 'rb') as fh:
                complete = fh.read()
            ok, recs = read_image(path)
            scratch = os.path.join(_tmp['dir'], f'ks{os.getpid()}.gro')
            judge_image(ctx, left, complete, [tuple(r) for r in recs], scratch,
                        {'real_kill_at_event': k, 'buffering': model}, 'crash_image_read')
    ctx.nontrivial(('kill', i))


def run_api(ctx, case):
    """Crash points of the writer when it is driven by the library's own writing
    APIs: Manager.extrapolate_system, Molecule.write_gro, Alignment.write_comparative_gro."""
    import gaddlemaps.parsers as P
    from gaddlemaps import Alignment
    from .. import world
    i = case['i']
    rng = ctx.rng('api', i)
    model = faults.BUFFER_MODELS[i % len(faults.BUFFER_MODELS)]
    root = os.path.join(_tmp['dir'], f'api{os.getpid()}_{i}')
    w = world.make_world(rng, root, nspecies=2, ninst=(1, 3), small_prob=0.3)
    man, first_out = world.run_pipeline(w, scale=0.5, steps_factor=2, seed=ctx.libseed('api', i))
    which = ['extrapolate_system', 'write_gro', 'write_comparative_gro'][i % 3]
    out = os.path.join(root, 'api_out.gro')
    scratch = os.path.join(root, 'api_scratch.gro')
    ali = next(iter(man.complete_correspondence.values()))

    def work():
        if which == 'extrapolate_system':
            man.extrapolate_system(out)
        elif which == 'write_gro':
            ali.end.write_gro(out)
        else:
            ali.write_comparative_gro(out)
    rec = faults.CrashRecorder(out)
    np.random.seed(1)
    try:
        with bus.patched(P, 'open', faults.make_open(model)):
            rec.run(work)
    except Exception as exc:  # noqa
        ctx.violation(f'writing-api-raises:{which}:{type(exc).__name__}', str(exc)[:200])
        shutil.rmtree(root, ignore_errors=True)
        return
    with open(out, 'rb') as fh:
        complete = fh.read()
    ok, recs = read_image(out)
    if not ok:
        ctx.violation('complete-file-rejected', f'{which}: the finished file cannot be read: {recs}')
        shutil.rmtree(root, ignore_errors=True)
        return
    complete_recs = [tuple(r) for r in recs]
    for idx, image in enumerate(rec.images):
        if image is None:
            continue
        judge_image(ctx, image, complete, complete_recs, scratch,
                    {'api': which, 'buffering': model, 'image_index': idx,
                     'first_seen_at': next((f'{l}:{ln}' for l, ln, k in rec.events if k == idx), None)}, 'crash_image_read')
        if image and image != complete:
            ctx.nontrivial(('api', i, which, idx))
    ctx.hit('api:' + which)
    ctx.count('crash_events', len(rec.events))
    ctx.count('distinct_crash_images', len(rec.images))
    shutil.rmtree(root, ignore_errors=True)


def sweep_points(ctx, complete, points, label, scratch, complete_recs):
    """The given truncation lengths (any order) of a complete file."""
    bstart = box_start_of(complete)
    bad = 0
    t0, budget_s, done = time.time(), 120, 0
    with open(scratch, 'wb') as fh:
        fh.write(complete)
    todo = sorted(set(int(p) for p in points if 0 <= p < len(complete)), reverse=True)
    total = len(todo)
    for k in todo:
        if time.time() - t0 > budget_s:
            # exploration budget, not a verdict: on a healthy tree the whole sweep takes a fraction of this
            ctx.note(f'the sweep of {label} was cut short by its {budget_s}s budget after {done} of {total} truncations')
            ctx.count('large_sweeps_cut_short')
            break
        done += 1
        os.truncate(scratch, k)
        ok, out = read_image(scratch)
        ctx.monitor('prefix_read')
        ctx.count('evaluations')
        if not ok:
            ctx.count('rejected:' + out)
            continue
        w = {'file': label, 'truncated_to': k, 'box_line_start': bstart, 'size': len(complete),
             'tail': complete[max(0, k - 120):k].decode(errors='replace')}
        if k <= bstart:
            ctx.violation('accepted-truncation-before-box-line',
                          f'{label} truncated to {k} bytes (box line starts at {bstart}) was accepted with {len(out)} records', witness=w)
            bad += 1
        elif [tuple(r) for r in out] != complete_recs:
            ctx.violation('accepted-truncation-with-different-records', f'{label} truncated to {k} bytes returns other records', witness=w)
            bad += 1
        else:
            ctx.hit('accepted:inside-box-line')
        if bad >= 12:
            ctx.note('a sweep over a large file was cut short after 12 refuting truncations (every further one costs a full read)')
            break


def run_large(ctx, case):
    """Complete files whose atom count needs six figures (the numbers inside the records wrap at 100000, the count in
    the header does not).  The byte truncations swept: the whole header and the first records, a window around every
    record whose index is a multiple of 100000 (and the records right after), the last records and the box line,
    plus a random sample of the rest."""
    import gaddlemaps.parsers as P
    n = case['n']
    rng = ctx.rng('large', case['i'])
    spec = grospec.gen_spec(rng, with_vel=bool(case['i'] % 2), dec=3, force={'n': n})
    spec['declare_count'] = bool(case['i'] % 2 == 0)
    spec['format'] = 'default'
    path = os.path.join(_tmp['dir'], f'L{os.getpid()}.gro')
    scratch = os.path.join(_tmp['dir'], f'M{os.getpid()}.gro')
    try:
        grospec.write_spec(spec, path, P.GroFile)
    except Exception as exc:  # noqa
        ctx.violation(f'writer-raises-on-large-file:{type(exc).__name__}', str(exc)[:200], witness={'records': n})
        return
    with open(path, 'rb') as fh:
        complete = fh.read()
    ok, recs = read_image(path)
    if not ok or len(recs) != n:
        ctx.violation('complete-file-rejected', f'large file of {n} records: {recs if not ok else len(recs)}')
        return
    complete_recs = [tuple(r) for r in recs]
    lines = complete.split(b'\n')
    stride = len(lines[2]) + 1
    first = len(lines[0]) + 1 + len(lines[1]) + 1
    pts = set(range(0, first + 12 * stride))
    for m in range(100000, n + 1, 100000):
        pts |= set(range(first + (m - 3) * stride, min(len(complete), first + (m + 8) * stride)))
    for m in (n % 100000,):
        pts |= set(range(first + max(0, m - 2) * stride, first + (m + 8) * stride))
    pts |= set(range(len(complete) - 12 * stride, len(complete)))
    pts |= {int(x) for x in rng.integers(0, len(complete), 3000)}
    sweep_points(ctx, complete, pts, f'large#{n}', scratch, complete_recs)
    ctx.hit('prefix:large-file')
    ctx.count('distinct_prefixes', len(pts))
    ctx.nontrivial(('large', n))
    for f in (path, scratch):
        try:
            os.remove(f)
        except OSError:
            pass


ABANDON_DRIVER = r'''
import json, os, sys
sys.path.insert(0, os.environ['VERIF_REPO_PATH'])
sys.path.insert(0, os.environ['VERIF_HOME'])
from gmv import grospec
spec = json.load(open(sys.argv[1]))
writer = grospec.write_spec(spec, sys.argv[2], upto=int(sys.argv[3]), close=False)
how = sys.argv[4]
if how == 'exception':
    raise RuntimeError('the program fails before it closes the file')
if how == 'sys.exit':
    sys.exit(3)
# 'falls-off-the-end': the script simply ends with the writer still open
'''


def run_abandoned(ctx, case):
    """Writing stops because the program stops using the writer: the object is dropped after k records (an exception
    unwinds the function that owned it, a reference is overwritten, the script ends) and nobody calls close().  Whatever
    the interpreter then does on its own with the dropped object, the file left behind is an unfinished one."""
    import gc
    i = case['i']
    rng = ctx.rng('abandoned', i)
    spec = grospec.gen_spec(rng, nmax=8, force={'declare': bool(i % 2)}, with_vel=bool((i // 2) % 2))
    spec['attr_history'] = None
    n = len(spec['records'])
    path = os.path.join(_tmp['dir'], f'a{os.getpid()}.gro')
    scratch = os.path.join(_tmp['dir'], f'as{os.getpid()}.gro')
    grospec.write_spec(spec, path)
    with open(path, 'rb') as fh:
        complete = fh.read()
    ok, recs = read_image(path)
    if not ok:
        ctx.violation('complete-file-rejected', f'the finished file cannot be read: {recs}', witness={'file': complete.decode(errors='replace')[:1500]})
        return
    complete_recs = [tuple(r) for r in recs]
    for k in range(0, n):
        for how in ('del', 'exception-unwinds'):
            apath = os.path.join(_tmp['dir'], f'ab{os.getpid()}.gro')
            if os.path.exists(apath):
                os.remove(apath)
            if how == 'del':
                g = grospec.write_spec(spec, apath, upto=k, close=False)
                del g
            else:
                def owner():
                    g = grospec.write_spec(spec, apath, upto=k, close=False)   # noqa (kept alive until the raise)
                    raise KeyError('user code fails between two records')
                try:
                    owner()
                except KeyError:
                    pass
            gc.collect()
            with open(apath, 'rb') as fh:
                left = fh.read()
            judge_image(ctx, left, complete, complete_recs, scratch,
                        {'abandoned_writer': how, 'records_written': k, 'n_records': n, 'count_declared': spec['declare_count']},
                        'abandoned_writer_read')
            ctx.hit('abandoned:' + how)
            ctx.nontrivial(('abandoned', i, k, how))
    # all records are in the file; one more batch is offered whose first record is malformed, or whose source fails at
    # once; the caller handles that - and then never gets to close(): still an unfinished file
    for how in ('malformed-first-record', 'source-raises-at-once'):
        apath = os.path.join(_tmp['dir'], f'ab{os.getpid()}.gro')
        if os.path.exists(apath):
            os.remove(apath)
        g = grospec.write_spec(dict(spec, refusals=[]), apath, close=False)

        def failing():
            raise KeyError('unknown species')
            yield
        try:
            g.writelines([grospec.record_list(spec['records'][0])[:5]] if how == 'malformed-first-record' else failing())
        except (Exception, KeyboardInterrupt):  # noqa
            pass
        del g
        gc.collect()
        with open(apath, 'rb') as fh:
            left = fh.read()
        judge_image(ctx, left, complete, complete_recs, scratch,
                    {'abandoned_writer': 'after a refused batch: ' + how, 'records_written': n, 'n_records': n, 'count_declared': spec['declare_count']},
                    'abandoned_writer_read')
        ctx.hit('abandoned:after-a-refused-batch')
    if i % 4 == 0:
        # the same in a process of its own that ends without closing the writer
        specfile = os.path.join(_tmp['dir'], f'a{os.getpid()}.json')
        with open(specfile, 'w') as fh:
            json.dump(spec, fh)
        env = dict(os.environ, VERIF_REPO_PATH=core.REPO, VERIF_HOME=core.VERIF)
        how = ['falls-off-the-end', 'exception', 'sys.exit'][(i // 4) % 3]
        k = int(rng.integers(1, n)) if n > 1 else 0
        apath = os.path.join(_tmp['dir'], f'ap{os.getpid()}.gro')
        if os.path.exists(apath):
            os.remove(apath)
        try:
            subprocess.run([sys.executable, '-W', 'ignore', '-c', ABANDON_DRIVER, specfile, apath, str(k), how],
                           env=env, timeout=120, stdout=subprocess.DEVNULL, stderr=subprocess.DEVNULL)
        except subprocess.TimeoutExpired:
            ctx.inconclusive_because('abandoned-writer driver timed out')
            return
        if os.path.exists(apath):
            with open(apath, 'rb') as fh:
                left = fh.read()
            judge_image(ctx, left, complete, complete_recs, scratch,
                        {'abandoned_writer': 'process ends: ' + how, 'records_written': k, 'n_records': n,
                         'count_declared': spec['declare_count']}, 'abandoned_writer_read')
            ctx.hit('abandoned:process-ends')


def run_case(ctx, case):
    {'abandoned': run_abandoned, 'writer': run_writer, 'shipped': run_shipped, 'generated': run_generated, 'kill': run_kill, 'api': run_api,
     'large': run_large}[case['kind']](ctx, case)


def finalize(ctx):
    if ctx.counters.get('real_kill_mismatch', 0):
        ctx.inconclusive_because('the in-process crash snapshots disagree with what a really killed process leaves '
                                 f'({ctx.counters["real_kill_mismatch"]} mismatches): the injector cannot be trusted')
    ctx.extra['exhaustive'] = True
    ctx.note('exhaustive over: every writer statement boundary of the listed writer runs x 4 buffering models, every byte '
             'prefix of their in-progress streams, every byte prefix of every shipped non-empty .gro file and of the generated files')
