"""
C02 - an exchange map commutes with rigid motion of the reference.

Deciding monitor: differential runs of the *same map object* on a reference
and on rigidly moved copies (rotations from a QR-orthonormalised Gaussian
matrix, independent of the library).  Atoms whose anchor frame is generic must
satisfy map(R x + t) = R map(x) + t to 1e-8 nm; atoms whose anchor leaves an
axis free (anchor collinear with its frame neighbours, two-atom reference) must
keep distance to the anchor, coordinate along the axis and distance from the
axis; for a one-atom reference the distance to that atom.
"""
import numpy as np

from .. import cover, emmon, gen, ref

LEVEL = 'exploration'
JOBS = {'quick': 4, 'thorough': 16}
REQUIRED_MONITORS = ('equivariance_generic', 'invariants_axis_free', 'invariants_two_atom', 'distance_one_atom')
REQUIRED_CLASSES = ('ref:1-atom', 'ref:2-atoms', 'ref:general', 'geometry:linear-z', 'geometry:partial-collinear',
                    'geometry:linear-moved', 'motion:generic', 'motion:translation', 'motion:rotation', 'motion:tiny',
                    'motion:nearpi', 'motion:large-translation', 'motion:half-turn-axis', 'motion:bond-flip', 'motion:near-previous', 'anchor:near-collinear-judged', 'ref:2-atoms-not-bonded', 'reference:through-the-parsers', 'caller-edits-the-equivalences-it-was-handed')
RULE = ('(reference, target, s) as in C01 plus references of 1 and 2 atoms; each mapped on M rigidly moved copies (M = 8 '
        'quick, 64 thorough; rotation classes generic/tiny/near-pi/identity x translations up to +-100 nm). Non-trivial: '
        'the motion is not the identity. distinct = distinct (reference class, geometry, motion class, s class, size bucket)')
ASSUMPTIONS = [
    'anchor frames generic (sin >= 1e-2) or collinear to rounding (sin <= 1e-12) at construction; rigid motion keeps the class',
    'target atoms with two equally near anchors (1e-9) are skipped and counted',
    'tolerance 1e-8 nm',
]
TOL = 1e-8
_cov = cover.Coverage()
MOTIONS = ['generic', 'translation', 'rotation', 'tiny', 'nearpi', 'large-translation', 'half-turn-axis', 'bond-flip',
           'near-previous', 'near-previous']


def setup(ctx):
    from gaddlemaps import _exchage_map
    EM = _exchage_map.ExchangeMap
    for name in ('_calculate_refsystems', '_calculate_refsystems_general', '__call__'):
        _cov.watch_attr(EM, name, f'ExchangeMap.{name}')
    _cov.start()
    emmon.install_contract(ctx, law=False)


def teardown(ctx):
    _cov.stop()
    ctx.take_coverage(_cov)


def cases(ctx):
    n = 700 if ctx.tier == 'quick' else 50000
    for b in range(n // 10):
        yield {'batch': b}


def gen_motion(rng, cls, pos=None):
    t = rng.normal(size=3) * 3
    if cls == 'half-turn-axis':
        # exact half turns about a coordinate axis (exact in floating point)
        d = [np.diag([1.0, -1.0, -1.0]), np.diag([-1.0, 1.0, -1.0]), np.diag([-1.0, -1.0, 1.0])][int(rng.integers(0, 3))]
        return d, t if rng.random() < 0.5 else np.zeros(3)
    if cls == 'bond-flip':
        # (nearly) half a turn about an axis perpendicular to the first bond: reverses that bond's direction
        if pos is None or len(pos) < 2:
            return gen.random_rotation(rng, 'nearpi'), t
        b = pos[1] - pos[0]
        axis = np.cross(b, rng.normal(size=3))
        if not np.any(axis):
            axis = np.cross(b, np.array([1.0, 0.3, -0.2]))
        eps = 0.0 if rng.random() < 0.3 else 10.0 ** rng.uniform(-8, -3) * rng.choice([-1, 1])
        return gen.rodrigues(axis, np.pi + eps), t if rng.random() < 0.5 else np.zeros(3)
    if cls == 'generic':
        return gen.random_rotation(rng), rng.uniform(-100, 100, 3)
    if cls == 'translation':
        return np.eye(3), t
    if cls == 'rotation':
        return gen.random_rotation(rng), np.zeros(3)
    if cls == 'tiny':
        return gen.random_rotation(rng, 'tiny'), t * 1e-3
    if cls == 'nearpi':
        return gen.random_rotation(rng, 'nearpi'), t
    return gen.random_rotation(rng), rng.choice([-100.0, 100.0], 3)


def make_near_collinear(rng, n, edges, pos):
    """Bends some anchors until they are almost straight: sin of the angle (anchor; its two frame neighbours) between 1e-6
    and 1e-3 - far above the threshold below which a frame counts as collinear (1e-8), far below ordinary geometry.
    Returns the set of anchors changed (pos is edited in place)."""
    anchors = list(ref.anchors_of(n, edges))
    adj = gen.adjacency(n, edges)
    anchors.sort(key=lambda a: -len(adj[a]))          # anchors with three or more bonds first
    done, near = set(), set()
    target, pos = pos, pos.copy()
    for a in anchors[:max(1, len(anchors) // 2)]:
        n1, n2 = ref.frame_neighbours(n, edges, a)
        if {a, n1, n2} & done:
            continue
        d = rng.normal(size=3) if rng.random() < 0.6 else np.eye(3)[int(rng.integers(0, 3))] * rng.choice([-1.0, 1.0])
        d = d / np.linalg.norm(d)
        perp = np.cross(d, rng.normal(size=3))
        perp = perp / np.linalg.norm(perp)
        k1, k2 = rng.choice([-3, -2, -1, 1, 2, 3], 2, replace=False)
        sin = 10.0 ** rng.uniform(-6, -3)
        pos[n1] = pos[a] + d * float(k1) * 0.125 + perp * 0.125 * abs(float(k1)) * sin
        pos[n2] = pos[a] + d * float(k2) * 0.125
        done |= {a, n1, n2}
        near.add(a)
    if gen.min_pair_distance(pos) < 1e-3:
        return set()
    # every other anchor must still be well conditioned or exactly collinear
    for a in ref.anchors_of(n, edges):
        if a in near:
            continue
        n1, n2 = ref.frame_neighbours(n, edges, a)
        sn = gen.sin_angle(pos[a], pos[n1], pos[n2])
        if 1e-12 < sn < 1e-2:
            return set()
    target[:] = pos
    return near


def cyl(p, a, u):
    """(distance to a, coordinate along u, distance from the axis through a along u)"""
    d = p - a
    ax = float(d @ u)
    rad = float(np.linalg.norm(d - ax * u))
    return float(np.linalg.norm(d)), ax, rad


def run_case(ctx, case):
    from gaddlemaps import ExchangeMap
    rng = ctx.rng('batch', case['batch'])
    M = 8 if ctx.tier == 'quick' else 64
    for it in range(10):
        r = rng.random()
        if r < 0.12:
            rcls, n = '1-atom', 1
        elif r < 0.3:
            rcls, n = '2-atoms', 2
        else:
            rcls, n = 'general', None
        near = set()
        if rcls == 'general':
            geometry = emmon.GEOMETRY[int(rng.integers(0, len(emmon.GEOMETRY)))]
            edges, pos, info = emmon.gen_reference(rng, geometry, nmax=25)
            if not ref.anchors_of(len(pos), edges) or not emmon.frames_ok(len(pos), edges, pos):
                ctx.count('rejected_reference')
                continue
            if geometry == 'generic' and it % 2:
                near = make_near_collinear(rng, len(pos), edges, pos)
                if near:
                    info = dict(info, geometry='near-collinear')
        else:
            geometry = 'small'
            info = {'geometry': 'small'}
            edges = [(0, 1)] if n == 2 else []
            if n == 2 and rng.random() < 0.4:
                edges = []              # the two atoms are not bonded in the topology (an ion pair written as one molecule)
                ctx.hit('ref:2-atoms-not-bonded')
            pos = rng.normal(size=(n, 3)) * (1 + 20 * (rng.random() < 0.3))
            if n == 2 and rng.random() < 0.4:
                # bond along a coordinate axis
                pos[1] = pos[0] + np.eye(3)[int(rng.integers(0, 3))] * rng.uniform(0.2, 0.5) * rng.choice([-1, 1])
        placement = emmon.PLACEMENT[int(rng.integers(0, len(emmon.PLACEMENT)))]
        tpos = emmon.gen_target(rng, pos, placement, mmax=40)
        scls = emmon.SCALES[int(rng.integers(0, 3))]
        s = emmon.gen_scale(rng, scls)
        through_files = (it % 5 == 2) and not near and len(pos) >= 2
        refm, tgtm = emmon.build_pair(rng, edges, pos, tpos, files=through_files)
        if through_files:
            pos = np.array(refm.atoms_positions)          # the three-decimal coordinates of the file
            if gen.min_pair_distance(pos) < 1e-3 or (rcls == 'general' and not emmon.frames_ok(len(pos), edges, pos)):
                ctx.count('rejected_reference')
                continue
            ctx.hit('reference:through-the-parsers')
        np.random.seed(ctx.libseed(case['batch'], it))
        w = {'edges': edges, 'ref': pos, 'target': tpos, 's': s, 'geometry': info['geometry']}
        try:
            emap = ExchangeMap(refm, tgtm, s)
            base = np.array(emap(refm).atoms_positions)
        except Exception as exc:  # noqa
            ctx.violation(f'map-raises:{type(exc).__name__}:{rcls}', str(exc)[:200], witness=w)
            continue
        model = emap.__dict__['_gmv_model']
        if it % 4 == 1:
            # the caller reads the map's table of equivalences and prunes the lists it was handed (keeps the heavy atoms,
            # say): that is the caller's copy, the map must go on restoring every atom
            try:
                eq = emap.equivalences
                for key in list(eq):
                    v = eq[key]
                    if isinstance(v, list) and v:
                        del v[len(v) // 2:]
                if isinstance(eq, dict) and len(eq) > 1:
                    eq.pop(next(iter(eq)))
                ctx.hit('caller-edits-the-equivalences-it-was-handed')
            except Exception:  # noqa
                ctx.count('equivalences_not_editable')
        if it % 2 == 0:
            emmon.disturb(ctx, emap, tgtm, refm)
        persistent = refm.copy()
        ctx.hit('ref:' + rcls)
        ctx.hit('geometry:' + info['geometry'])
        if not np.all(np.isfinite(base)):
            ctx.violation(f'map-nonfinite:{rcls}', 'non-finite mapped coordinates', witness=w)
            continue
        prev = (np.eye(3), np.zeros(3))       # the motion of the configuration mapped by the previous call
        for m in range(M):
            mcls = MOTIONS[int(rng.integers(0, len(MOTIONS)))]
            if mcls == 'near-previous':
                # almost the configuration of the previous call: a rotation by 1e-7..1e-3 rad about an axis through the
                # molecule and/or a shift of 1e-7..1e-3 nm on top of the previous motion (a molecule that barely moved)
                axis = rng.normal(size=3)
                dR = gen.rodrigues(axis, 10.0 ** rng.uniform(-7, -3)) if rng.random() < 0.7 else np.eye(3)
                dt = rng.normal(size=3) * 10.0 ** rng.uniform(-7, -3) if rng.random() < 0.7 else np.zeros(3)
                c = (pos @ prev[0].T + prev[1]).mean(axis=0)
                R = dR @ prev[0]
                t = dR @ (prev[1] - c) + c + dt
            else:
                R, t = gen_motion(rng, mcls, pos)
            prev = (R, t)
            pos2 = pos @ R.T + t
            try:
                if m % 2:
                    persistent.atoms_positions = pos2          # one argument object moved in place between calls
                    out2 = np.array(emap(persistent).atoms_positions)
                else:
                    out2 = np.array(emap(emmon.with_positions(refm, pos2)).atoms_positions)
            except Exception as exc:  # noqa
                ctx.violation(f'map-raises:{type(exc).__name__}:{rcls}', str(exc)[:200], witness=dict(w, R=R, t=t))
                break
            ctx.count('evaluations')
            ctx.hit('motion:' + mcls)
            ctx.nontrivial((rcls, info['geometry'], mcls, scls, len(pos) // 8))
            wm = dict(w, R=R, t=t, motion=mcls)
            moved_base = base @ R.T + t
            bad = False
            for k in range(len(tpos)):
                if len(model.allowed[k]) != 1 or model.gap[k] < 1e-9:
                    ctx.count('skipped_anchor_tie')
                    continue
                a = model.allowed[k][0]
                # floating-point floor: the frame is built from coordinate differences; its relative error is about
                # eps * |coordinates| / (bond * sin), and it is amplified by the distance of the target atom.  Cases
                # whose floor is not far below the tolerance cannot be decided at 1e-8 and are counted, not judged.
                if rcls == 'general':
                    n1_, n2_ = model.frames[a]
                    bondmin = min(np.linalg.norm(pos[n1_] - pos[a]), np.linalg.norm(pos[n2_] - pos[a]))
                    sn = max(gen.sin_angle(pos[a], pos[n1_], pos[n2_]), 1e-300) if (model.anchor_class(a) == 'generic' or a in near) else 1.0
                    floor = 2.2e-16 * s * np.linalg.norm(tpos[k] - pos[a]) * (1 + np.abs(pos2).max()) / (bondmin * sn)
                    if floor > 2e-10:
                        ctx.count('skipped_float_floor')
                        continue
                if rcls == 'general':
                    cls = model.anchor_class(a)
                    if a in near:
                        # the frame plane is defined (sin >= 1e-6, a hundred times the library's collinearity threshold)
                        # but weakly: decidable wherever the floating-point floor computed above is below the tolerance
                        cls = 'generic'
                        ctx.hit('anchor:near-collinear-judged')
                    if cls == 'generic':
                        ctx.monitor('equivariance_generic')
                        err = float(np.linalg.norm(out2[k] - moved_base[k]))
                        if err > TOL:
                            ctx.violation('not-equivariant:generic-anchor',
                                          f'atom {k}: |map(Rx+t) - (R map(x)+t)| = {err:.3g} ({mcls} motion, {info["geometry"]})', witness=wm)
                            bad = True
                    elif cls == 'collinear':
                        n1, n2 = model.frames[a]
                        u = pos[n2] - pos[a]
                        u = u / np.linalg.norm(u)
                        c1 = cyl(base[k], pos[a], u)
                        c2 = cyl(out2[k], pos2[a], R @ u)
                        ctx.monitor('invariants_axis_free')
                        err = max(abs(x - y) for x, y in zip(c1, c2))
                        if err > TOL:
                            which = ['distance-to-anchor', 'axial-coordinate', 'radial-distance'][int(np.argmax([abs(x - y) for x, y in zip(c1, c2)]))]
                            ctx.violation(f'axis-free-invariant-broken:collinear-anchor:{which}',
                                          f'atom {k}: (dist, axial, radial) {c1} -> {c2} ({mcls} motion, {info["geometry"]})', witness=wm)
                            bad = True
                elif rcls == '2-atoms':
                    u = pos[1] - pos[0]
                    u = u / np.linalg.norm(u)
                    c1 = cyl(base[k], pos[0], u)
                    c2 = cyl(out2[k], pos2[0], R @ u)
                    ctx.monitor('invariants_two_atom')
                    diffs = [abs(x - y) for x, y in zip(c1, c2)]
                    if max(diffs) > TOL:
                        which = ['distance-to-anchor', 'axial-coordinate', 'radial-distance'][int(np.argmax(diffs))]
                        ctx.violation(f'axis-free-invariant-broken:two-atom-reference:{which}',
                                      f'atom {k}: (dist, axial, radial) {c1} -> {c2} ({mcls} motion)', witness=wm)
                        bad = True
                else:
                    ctx.monitor('distance_one_atom')
                    d1 = float(np.linalg.norm(base[k] - pos[0]))
                    d2 = float(np.linalg.norm(out2[k] - pos2[0]))
                    if abs(d1 - d2) > TOL:
                        ctx.violation('one-atom-reference-distance-changed', f'atom {k}: {d1} -> {d2}', witness=wm)
                        bad = True
                if bad:
                    break
            if bad:
                break
        if it == 0 and case['batch'] < 4:
            ctx.sample({'reference_class': rcls, 'geometry': info['geometry'], 'n_ref': len(pos), 'n_target': len(tpos),
                        's': s, 'ref_positions': pos[:4], 'motions_applied': M})
