"""
C11 - System recognises exactly the molecule instances present, in file order.

Deciding monitor: reference = the generator's ground truth.  Files are
assembled from whole molecules of four species with distinct residue
signatures plus an unloaded single-atom solvent; every atom has unique
coordinates, so each molecule handed out by System identifies the file lines it
was built from.  Finite part enumerated: every sequence of up to 6 molecules
over {S1..S4, W} x every permutation of the topology loading order (thorough;
quick: length <= 4, at most 6 orders).  Longer systems are sampled.
"""
import itertools
import os
import shutil
import tempfile
from collections import Counter

import numpy as np

from .. import core, cover, gen, sysgen

LEVEL = 'exploration'
JOBS = {'quick': 4, 'thorough': 16}
REQUIRED_MONITORS = ('interleaved_access', 'instances_vs_truth', 'access_consistency', 'negative_topology')
REQUIRED_CLASSES = ('enumerated', 'random-long', 'species:multi-residue', 'species:repeated-residue',
                    'species:same-name-other-size', 'solvent-interleaved', 'order:permuted', 'api:files', 'api:tops',
                    'negative:absent-species', 'negative:pattern-at-end', 'negative:refused-then-system-used-again', 'api:tops+refused', 'adjacent-instances-of-a-merging-species',
                    'api:open-handles', 'handle:shared-by-two-systems', 'handle:caller-reads-between-accesses', 'settings:warnings-as-errors')
RULE = ('enumerated part: all sequences of length <= Lmax over {S1,S2,S3,S4,W} x all permutations of the loading order of '
        'the species present (Lmax = 6 thorough, 4 quick with <= 6 orders); random part: systems of 50..2000 molecules in '
        'block / alternating / random order. Non-trivial: at least 2 loaded species present or a multi-residue species '
        'repeated. distinct = distinct (sequence, load order) pairs for the enumerated part and (n bucket, order kind, '
        'load order) for the random part')
ASSUMPTIONS = [
    'species have pairwise distinct residue signatures (residue name, atom count); files contain whole molecules only, plus unrelated single-atom solvent residues',
    'consecutive instances get different residue numbers (otherwise two residues of equal name would be one residue by the .gro rule)',
    '"refused with an error" = any exception',
]
_cov = cover.Coverage()
_tmp = {}
KEYS = ['S1', 'S2', 'S3', 'S4', 'W']


def species_set():
    rng = np.random.default_rng(12345)
    sp = {
        'S1': sysgen.make_species(rng, 'SPA', [3], ['R1A'], prefix='A'),
        'S2': sysgen.make_species(rng, 'SPB', [2, 3], ['R2A', 'R2B'], prefix='B'),
        'S3': sysgen.make_species(rng, 'SPC', [2, 2, 1], ['R3A', 'R3A', 'R3B'], prefix='C'),
        'S4': sysgen.make_species(rng, 'SPD', [4], ['R1A'], prefix='D'),
        'W': sysgen.make_species(rng, 'W', [1], ['W'], prefix='W'),
        # a second family, with the residue layouts that merge across molecule boundaries in the run-length table:
        # first and last residue alike with another in between; one residue kind repeated; identical single-atom residues
        'S5': sysgen.make_species(rng, 'SPE', [2, 3, 2], ['R5A', 'R5B', 'R5A'], prefix='E'),
        'S6': sysgen.make_species(rng, 'SPF', [1, 1, 1], ['R6A', 'R6A', 'R6A'], prefix='F'),
        'S7': sysgen.make_species(rng, 'SPG', [2, 2], ['R7A', 'R7A'], prefix='G'),
    }
    for key, copies in (('S5', [(0, 5), (1, 6)]), ('S6', [(0, 1), (0, 2)]), ('S7', [(0, 2), (1, 3)])):
        # residues of the same kind carry the same atom names
        a = sp[key]['atoms']
        for src, dst in copies:
            a[dst] = (a[src][0], a[dst][1], a[dst][2])
    # S4's residue has the name of S1's and its atom names begin with S1's atom names (N CA C / N CA C OT)
    a1, a4 = sp['S1']['atoms'], sp['S4']['atoms']
    sp['S4']['atoms'] = [(a1[k][0], a4[k][1], a4[k][2]) for k in range(3)] + [a4[3]]
    # the repeated residue of S3 has the same atom names in both copies
    a = sp['S3']['atoms']
    sp['S3']['atoms'] = [a[0], a[1], (a[0][0], a[2][1], a[2][2]), (a[1][0], a[3][1], a[3][2]), a[4]]
    return sp


def setup(ctx):
    from gaddlemaps.components import System
    for name in ('__iter__', '__getitem__', '_check_index_in_available_mgro', '_find_all_molecules_and_replace',
                 '_molecules_ordered_all_gen', 'add_molecule_top'):
        _cov.watch_attr(System, name, f'System.{name}')
    _cov.start()
    d = _tmp['dir'] = tempfile.mkdtemp(prefix='gmv_c11_')
    _tmp['species'] = species_set()
    _tmp['itp'] = {}
    for k, sp in _tmp['species'].items():
        p = os.path.join(d, f'{k}.itp')
        sysgen.write_species_itp(sp, p, start=3 if k == 'S2' else 1)
        _tmp['itp'][k] = p
    # hostile topologies for the negative tests
    absent = sysgen.make_species(np.random.default_rng(5), 'ABS', [2], ['NOPE'], prefix='N')
    _tmp['absent'] = os.path.join(d, 'absent.itp')
    sysgen.write_species_itp(absent, _tmp['absent'])
    tail = sysgen.make_species(np.random.default_rng(6), 'TAIL', [1, 3], ['W', 'R1A'], prefix='T')
    tail['atoms'] = [('W0', 'W', 1)] + [(f'A{i}', 'R1A', 2) for i in range(3)]
    _tmp['tail'] = os.path.join(d, 'tail.itp')
    sysgen.write_species_itp(tail, _tmp['tail'])
    wrongnames = dict(_tmp['species']['S1'])
    wrongnames['atoms'] = [(f'Z{i}', 'R1A', 1) for i in range(3)]
    wrongnames['name'] = 'SPZ'
    _tmp['wrongnames'] = os.path.join(d, 'wrongnames.itp')
    sysgen.write_species_itp(wrongnames, _tmp['wrongnames'])
    from gaddlemaps.components import MoleculeTop
    _tmp['tops'] = {k: MoleculeTop(p) for k, p in _tmp['itp'].items()}


def teardown(ctx):
    _cov.stop()
    ctx.take_coverage(_cov)
    shutil.rmtree(_tmp['dir'], ignore_errors=True)


BLOCK = 125


def cases(ctx):
    lmax = 4 if ctx.tier == 'quick' else 6
    for L in range(1, lmax + 1):
        total = 5 ** L
        for b in range((total + BLOCK - 1) // BLOCK):
            yield {'kind': 'enum', 'L': L, 'block': b}
    for L in range(1, (3 if ctx.tier == 'quick' else 5) + 1):
        total = 5 ** L
        for lo in range(0, total, 125):
            yield {'kind': 'enum2', 'L': L, 'lo': lo, 'hi': min(total, lo + 125)}
    for i in range(16 if ctx.tier == 'quick' else 600):
        yield {'kind': 'rand', 'i': i}
    for i in range(6 if ctx.tier == 'quick' else 100):
        yield {'kind': 'neg', 'i': i}


def mol_key(m):
    return (m.name, tuple(m.atoms_ids), m.atoms_positions.tobytes())


def build(ctx, path, order, api, seq=None):
    from gaddlemaps.components import System
    if api == 'files':
        return System(path, *[_tmp['itp'][k] for k in order])
    if api == 'open-handles':
        # coordinates and topologies handed over as open text files; the caller keeps the coordinate handle and goes on
        # using it, also for a second System (check_system, interleaved access)
        fh = open(path)
        tops = [open(_tmp['itp'][k]) for k in order]
        try:
            sysm = System(fh, *tops)
        finally:
            for t in tops:
                t.close()
        sysm.__dict__['_gmv_handle'] = (fh, [_tmp['itp'][k] for k in order])
        return sysm
    s = System(path)
    if api != 'tops+refused':
        # the caller may run with warnings turned into errors (every other system): the unchanged library recognises a
        # topology without a word; a caller that is refused with a warning catches it and goes on with the same object
        caller = core.next_settings(ctx, ('default', 'warnings-as-errors'))
        for k in order:
            try:
                with core.settings(caller):
                    s.add_molecule_top(_tmp['tops'][k].copy())
            except Warning as exc:
                ctx.violation('topology-refused-with-a-warning', f'{type(exc).__name__} under warnings-as-errors: {str(exc)[:150]}',
                              witness={'sequence': list(seq or ())[:40], 'load_order': list(order)})
        return s
    # topologies that must be refused are offered between the good ones (as automatic discovery does with every
    # candidate file); each refusal must leave the system as it was
    from gaddlemaps.components import MoleculeTop
    r = np.random.default_rng([len(order), hash(tuple(order)) & 0xFFFF, len(seq or ())])
    adjacent_w_s1 = any(a == 'W' and b == 'S1' for a, b in zip(seq or (), (seq or ())[1:]))
    for pos in range(len(order) + 1):
        for _ in range(int(r.integers(0, 3))):
            kind = ['absent', 'wrongnames', 'tail', 'again'][int(r.integers(0, 4))]
            if kind == 'tail' and adjacent_w_s1:
                continue
            if kind == 'again':
                if pos == 0:
                    continue
                top = _tmp['tops'][order[int(r.integers(0, pos))]].copy()      # a species whose instances are all taken
            else:
                top = MoleculeTop(_tmp[kind])
            ctx.monitor('negative_topology')
            ctx.hit('negative:refused-then-system-used-again')
            try:
                s.add_molecule_top(top)
            except Exception:  # noqa
                continue
            ctx.violation(f'unmatched-topology-accepted:{kind}', f'no error for a {kind} topology offered after {list(order[:pos])}',
                          witness={'sequence': list(seq or ())[:40], 'load_order': list(order)})
        if pos < len(order):
            s.add_molecule_top(_tmp['tops'][order[pos]].copy())
    return s


def check_system(ctx, s, instances, species, w, deep):
    """Compare what System hands out with the generator truth."""
    want = [ins for ins in instances if ins['loaded']]
    ctx.monitor('instances_vs_truth')
    try:
        mols = list(s)
    except Exception as exc:  # noqa
        ctx.violation(f'iteration-raises:{type(exc).__name__}', str(exc)[:200], witness=w)
        return False
    if len(mols) != len(want):
        ctx.violation('instance-count-wrong', f'{len(mols)} molecules, {len(want)} loaded instances in the file', witness=w)
        return False
    for k, (m, ins) in enumerate(zip(mols, want)):
        sp = species[ins['species']]
        if m.name != sp['name']:
            ctx.violation('instance-order-or-species-wrong', f'molecule {k} is {m.name}, file has {sp["name"]}', witness=w)
            return False
        if list(m.atoms_ids) != ins['atomids']:
            ctx.violation('instance-atom-run-wrong', f'molecule {k} ({m.name}) covers atoms {m.atoms_ids[:6]}, expected {ins["atomids"][:6]}', witness=w)
            return False
        if [a.name for a in m] != [a[0] for a in sp['atoms']]:
            ctx.violation('instance-atom-names-wrong', f'molecule {k}: {[a.name for a in m]}', witness=w)
            return False
        if not np.array_equal(m.atoms_positions, ins['coords']):
            ctx.violation('instance-coordinates-wrong', f'molecule {k} ({m.name}) does not carry the coordinates of its file lines', witness=w)
            return False
        if list(m.resids) != ins['resids']:
            ctx.violation('instance-resids-wrong', f'molecule {k}: resids {m.resids} expected {ins["resids"]}', witness=w)
            return False
    n = len(want)
    if len(s) != n:
        ctx.violation('len-disagrees', f'len()={len(s)} but {n} molecules iterated', witness=w)
    comp = Counter(species[i['species']]['name'] for i in want)
    if dict(s.composition) != dict(comp):
        ctx.violation('composition-disagrees', f'{dict(s.composition)} != {dict(comp)}', witness=w)
    # what composition hands out is the caller's to edit (summing frames, dropping a species): the system's own answer stays
    handed = s.composition
    try:
        handed.update({'XXX': 3})
        for key in list(handed)[:1]:
            del handed[key]
    except Exception:  # noqa
        pass
    if dict(s.composition) != dict(comp) or len(s) != n:
        ctx.violation('composition-changed-by-editing-what-it-returned', f'{dict(s.composition)} != {dict(comp)} after the caller edited the returned counter', witness=w)
    if not deep:
        return True
    ctx.monitor('access_consistency')
    keys = [mol_key(m) for m in mols]
    idxs = range(-n, n) if n <= 12 else sorted({0, n - 1, -1, -n, n // 2} | {int(x) for x in np.random.default_rng(n).integers(-n, n, 12)})
    for i in idxs:
        try:
            if mol_key(s[i]) != keys[i]:
                ctx.violation('index-disagrees-with-iteration', f'System[{i}] is not the {i}-th iterated molecule (n={n})', witness=w)
                break
        except Exception as exc:  # noqa
            ctx.violation(f'index-raises:{type(exc).__name__}', f'System[{i}] (n={n}): {exc}', witness=w)
            break
    for bad in (n, -n - 1):
        try:
            s[bad]
            ctx.violation('index-out-of-range-accepted', f'System[{bad}] returned a molecule (n={n})', witness=w)
        except Exception as exc:  # noqa  (the statement does not name the error type; an empty System raises ValueError)
            ctx.count('out_of_range_refused:' + type(exc).__name__)
    rs = np.random.default_rng(n + 7)
    for _ in range(6):
        a = None if rs.random() < 0.2 else int(rs.integers(-n - 1, n + 2))
        b = None if rs.random() < 0.2 else int(rs.integers(-n - 1, n + 2))
        c = None if rs.random() < 0.4 else int(rs.choice([1, 2, 3, -1, -2]))
        try:
            got = [mol_key(m) for m in s[a:b:c]]
        except Exception as exc:  # noqa
            ctx.violation(f'slice-raises:{type(exc).__name__}', f'System[{a}:{b}:{c}] (n={n}): {exc}', witness=w)
            break
        if got != keys[a:b:c]:
            ctx.violation('slice-disagrees-with-iteration', f'System[{a}:{b}:{c}] (n={n})', witness=w)
            break
    if [mol_key(m) for m in s] != keys:
        ctx.violation('second-iteration-differs', 'iterating twice gives different molecules', witness=w)
    # interleaved access: several iterations in progress at once, with indexing, slicing and len() between their steps
    if n >= 2:
        ctx.monitor('interleaved_access')
        ri = np.random.default_rng(n + 11)
        its = [[iter(s), 0], [iter(s), 0]]
        hist = []
        fh, itps = s.__dict__.get('_gmv_handle', (None, None))
        s2 = None
        if fh is not None:
            # the caller's own handle: a second System is made on it (topologies in the opposite order) and both are used
            # in turn, and the caller reads from the handle itself between two accesses
            from gaddlemaps.components import System
            try:
                fh.seek(0)
                s2 = System(fh, *itps[::-1])
                ctx.hit('handle:shared-by-two-systems')
            except Exception as exc:  # noqa
                ctx.violation(f'system-construction-raises:{type(exc).__name__}', f'second System on the same open handle: {str(exc)[:150]}', witness=w)
        for _ in range(min(4 * n + 6, 60)):
            op = int(ri.integers(0, 7 if fh is not None else 5))
            try:
                if op == 5:
                    fh.seek(0)
                    fh.readline()
                    hist.append(('caller-reads-title-through-its-handle',))
                    ctx.hit('handle:caller-reads-between-accesses')
                    bad = False
                elif op == 6:
                    if s2 is None:
                        continue
                    k = int(ri.integers(-n, n))
                    hist.append(('index-in-second-system', k))
                    bad = mol_key(s2[k]) != keys[k]
                elif op <= 1 or op == 4:
                    it = its[op % 2]
                    if it[1] >= n:
                        its[op % 2] = it = [iter(s), 0]
                        hist.append(('restart', op % 2))
                    got = mol_key(next(it[0]))
                    hist.append(('next', op % 2, it[1]))
                    bad = got != keys[it[1]]
                    it[1] += 1
                elif op == 2:
                    k = int(ri.integers(-n, n))
                    hist.append(('index', k))
                    bad = mol_key(s[k]) != keys[k]
                else:
                    a, b = sorted(int(x) for x in ri.integers(0, n + 1, 2))
                    hist.append(('slice', a, b))
                    bad = [mol_key(m) for m in s[a:b]] != keys[a:b] or len(s) != n
            except Exception as exc:  # noqa
                ctx.violation(f'interleaved-access-raises:{type(exc).__name__}', f'{hist[-4:]} (n={n}): {str(exc)[:120]}', witness=dict(w, history=hist[-12:]))
                break
            if bad:
                ctx.violation('interleaved-access-disagrees', f'after {hist[-4:]} (n={n}) the molecule handed out is not the one of that position', witness=dict(w, history=hist[-12:]))
                break
    return True


def run_sequence(ctx, seq, orders, tag, api_cycle, deep_every=1, mode='unique-grid', loadable=None):
    species = _tmp['species']
    rng = ctx.rng('seq', tag)
    path = os.path.join(_tmp['dir'], f'sys{os.getpid()}.gro')
    records, instances = sysgen.build_system(rng, species, seq, mode=mode, resid_start=int(rng.integers(1, 90)))
    gen.write_gro(path, 'generated system', records, (10.0, 10.0, 10.0))
    present = [k for k in (loadable or KEYS[:4]) if k in seq]
    for n_order, order in enumerate(orders(present)):
        for ins in instances:
            ins['loaded'] = ins['species'] in order
        api = api_cycle[n_order % len(api_cycle)]
        w = {'sequence': list(seq) if len(seq) <= 40 else list(seq[:40]) + ['...'], 'load_order': list(order), 'api': api}
        ctx.count('evaluations')
        ctx.hit('api:' + api)
        if list(order) != sorted(order):
            ctx.hit('order:permuted')
        try:
            s = build(ctx, path, order, api, seq)
        except Exception as exc:  # noqa
            ctx.violation(f'system-construction-raises:{type(exc).__name__}', str(exc)[:200], witness=w)
            continue
        ok = check_system(ctx, s, instances, species, w, deep=(n_order % deep_every == 0))
        del s
        if len(set(present)) >= 2 or sum(1 for k in seq if k in ('S2', 'S3')) >= 2:
            ctx.nontrivial((tuple(seq) if len(seq) <= 8 else (len(seq), hash(tuple(seq)) & 0xFFFF), tuple(order)))
        if not ok:
            break
    for k in set(seq):
        if k in ('S2', 'S3'):
            ctx.hit('species:multi-residue')
        if k == 'S3':
            ctx.hit('species:repeated-residue')
        if k == 'S4' and 'S1' in seq:
            ctx.hit('species:same-name-other-size')
    if 'W' in seq[1:-1]:
        ctx.hit('solvent-interleaved')


def run_enum(ctx, case):
    L, block = case['L'], case['block']
    total = 5 ** L
    quick = ctx.tier == 'quick'

    def orders(present):
        perms = list(itertools.permutations(present))
        if not perms or perms == [()]:
            return []
        if quick and len(perms) > 6:
            r = np.random.default_rng([ctx.seed, L, block, len(perms)])
            perms = [perms[int(i)] for i in r.choice(len(perms), 6, replace=False)]
        return perms
    for idx in range(block * BLOCK, min(total, (block + 1) * BLOCK)):
        digits, x = [], idx
        for _ in range(L):
            digits.append(x % 5)
            x //= 5
        seq = [KEYS[d] for d in digits]
        if all(k == 'W' for k in seq):
            continue
        run_sequence(ctx, seq, orders, ('enum', L, idx), ['open-handles', 'tops', 'tops+refused', 'files', 'tops+refused'], deep_every=3)
        ctx.hit('enumerated')
        if idx == 37 and L == 3:
            ctx.sample({'kind': 'enumerated', 'sequence': seq, 'orders': [list(o) for o in orders([k for k in KEYS[:4] if k in seq])][:4]})
    ctx.extra.setdefault('enumerated_blocks', {}).setdefault(f'L{L}', 0)
    ctx.extra['enumerated_blocks'][f'L{L}'] += 1


KEYS2 = ['S5', 'S6', 'S7', 'S1', 'W']


def run_enum2(ctx, case):
    """Second family (residue layouts that merge across molecule boundaries): all sequences of length L over
    {S5, S6, S7, S1, W} x every load order of the species present."""
    L = case['L']
    quick = ctx.tier == 'quick'
    for idx in range(case['lo'], case['hi']):
        digits, x = [], idx
        for _ in range(L):
            digits.append(x % 5)
            x //= 5
        seq = [KEYS2[d] for d in digits]
        if all(k == 'W' for k in seq):
            continue

        def orders(present):
            perms = [p for p in itertools.permutations(present)] if present else []
            if quick and len(perms) > 6:
                r = np.random.default_rng([ctx.seed, L, idx])
                perms = [perms[int(i)] for i in r.choice(len(perms), 6, replace=False)]
            return perms
        run_sequence(ctx, seq, orders, ('enum2', L, idx), ['tops', 'files', 'open-handles', 'tops+refused'], deep_every=2, loadable=KEYS2[:4])
        ctx.hit('enumerated:merging-layouts')
        if any(a == b and a in ('S5', 'S6', 'S7') for a, b in zip(seq, seq[1:])):
            ctx.hit('adjacent-instances-of-a-merging-species')


def run_rand(ctx, case):
    rng = ctx.rng('rand', case['i'])
    keys = KEYS2 if case['i'] % 2 else KEYS
    n = int(rng.integers(50, 2001 if ctx.tier == 'thorough' else 401))
    kind = ['blocks', 'alternating', 'random'][case['i'] % 3]
    if kind == 'blocks':
        seq = []
        while len(seq) < n:
            seq += [keys[int(rng.integers(0, 5))]] * int(rng.integers(1, 60))
        seq = seq[:n]
    elif kind == 'alternating':
        a, b, c = (keys[int(i)] for i in rng.choice(5, 3, replace=False))
        seq = [(a, b, c)[i % 3] for i in range(n)]
    else:
        seq = [keys[int(i)] for i in rng.integers(0, 5, n)]

    def orders(present):
        perms = list(itertools.permutations(present))
        r = np.random.default_rng([ctx.seed, case['i']])
        return [perms[int(i)] for i in r.choice(len(perms), min(len(perms), 3), replace=False)]
    run_sequence(ctx, seq, orders, ('rand', case['i']), ['open-handles', 'files', 'tops', 'tops+refused'], mode='unique-grid', loadable=keys[:4])
    ctx.hit('random-long')
    if case['i'] == 0:
        ctx.sample({'kind': 'random system', 'molecules': n, 'order_kind': kind, 'sequence_head': seq[:20]})


def run_neg(ctx, case):
    """A topology with no matching run must be refused with an error."""
    from gaddlemaps.components import System
    rng = ctx.rng('neg', case['i'])
    species = _tmp['species']
    n = int(rng.integers(2, 12))
    seq = [KEYS[int(i)] for i in rng.integers(0, 5, n)]
    which = ['absent-species', 'pattern-at-end', 'same-signature-other-names', 'consumed-twice'][case['i'] % 4]
    if which == 'pattern-at-end':
        # TAIL = [W, R1A(3)] : make a W the very last residue, with no W followed by S1 anywhere
        seq = [k for k in seq if k != 'W'] + ['S2', 'W']
        for a, b in zip(seq, seq[1:]):
            assert not (a == 'W' and b == 'S1')
    if which in ('same-signature-other-names', 'consumed-twice') and 'S1' not in seq:
        seq.append('S1')
    path = os.path.join(_tmp['dir'], f'neg{os.getpid()}.gro')
    records, instances = sysgen.build_system(rng, species, seq, mode='unique-grid')
    gen.write_gro(path, 'negative case', records, (10.0, 10.0, 10.0))
    ctx.count('evaluations')
    ctx.monitor('negative_topology')
    ctx.hit('negative:' + which)
    w = {'sequence': seq, 'negative': which}
    try:
        if which == 'absent-species':
            System(path, _tmp['absent'])
        elif which == 'pattern-at-end':
            System(path, _tmp['tail'])
        elif which == 'same-signature-other-names':
            System(path, _tmp['wrongnames'])
        else:
            System(path, _tmp['itp']['S1'], _tmp['itp']['S1'])
    except Exception as exc:  # noqa
        ctx.count('negative_refused:' + type(exc).__name__)
        return
    ctx.violation(f'unmatched-topology-accepted:{which}', f'no error for {which} on {seq}', witness=w)


def run_case(ctx, case):
    {'enum': run_enum, 'enum2': run_enum2, 'rand': run_rand, 'neg': run_neg}[case['kind']](ctx, case)


def finalize(ctx):
    blocks = ctx.extra.get('enumerated_blocks', {})
    lmax = 4 if ctx.tier == 'quick' else 6
    ctx.extra['enumerated_completely'] = {f'L{L}': blocks.get(f'L{L}', 0) >= (5 ** L + BLOCK - 1) // BLOCK
                                          for L in range(1, lmax + 1)}
    ctx.extra['exhaustive'] = False
    ctx.note('exhaustive only for the sequence lengths listed under enumerated_completely'
             + (' (quick tier: at most 6 load orders per sequence)' if ctx.tier == 'quick' else ' x every load order'))
