"""
C07 - single-atom move restores every bond length on acyclic molecules.

Deciding monitors: the contracts of monitors.py on move_mol_atom and
find_atom_random_displ.  Finite part enumerated: every labelled tree on 2..7
vertices (Pruefer sequences) x every moved atom; everything continuous
(coordinates, displacements, tables, larger graphs) is sampled.  The same
contracts also run on the moves the Monte-Carlo engine makes (embedded runs).
"""
import numpy as np

from .. import core, cover, gen, monitors

LEVEL = 'exploration'
JOBS = {'quick': 2, 'thorough': 16}
REQUIRED_MONITORS = ('move_contract', 'displ_contract')
REQUIRED_CLASSES = ('move:tree', 'move:cyclic', 'displ:1', 'displ:2', 'displ:3', 'displ:4+',
                    'table:agrees', 'table:disagrees', 'table:all-bonds-one-length', 'call:displacement-given-atom-omitted', 'embedded:mc-moves', 'graph:forest',
                    'sequence:same-table-object', 'sequence:table-lengths-edited-in-place',
                    'sequence:table-graph-edited-in-place', 'sequence:positions-edited-in-place',
                    'sequence:other-table-same-size', 'sequence:refused-call-before', 'table:other-length-unit',
                    'settings:warnings-as-errors', 'settings:fp-raise', 'settings:fp-ignore')
RULE = ('enumerated part: every labelled tree on n<=Nmax vertices x every moved atom (Nmax = 7 thorough; quick: 6 '
        'plus every 10th tree on 7); random part: trees, cyclic graphs and forests up to 60 atoms. A case is '
        'non-trivial when the moved atom has at least one neighbour that has to be re-positioned; distinct = '
        'distinct (tree id, moved atom) for the enumerated part and (graph kind, n, degree of moved atom, '
        'displacement class, table class) for the random part')
ASSUMPTIONS = [
    'generic coordinates (pairwise distinct atoms, no bond of zero length)',
    'bond lengths in the table are positive',
    'for cyclic graphs only the necessary consequence is judged: exactly restored bonds span everything reachable from the moved atom',
    'tolerance 1e-9 relative on bond lengths, bitwise on the moved atom and on the input array',
]

BLOCK = 250
_cov = cover.Coverage()


def setup(ctx):
    import gaddlemaps._transform_molecule as tm
    _cov.watch_attr(tm, 'move_mol_atom')
    _cov.watch_attr(tm, 'find_atom_random_displ')
    _cov.start()
    monitors.install_move_contract(ctx)


def teardown(ctx):
    _cov.stop()
    ctx.take_coverage(_cov)


def cases(ctx):
    nmax = 7
    for n in range(2, nmax + 1):
        total = 1 if n <= 2 else n ** (n - 2)
        for b in range((total + BLOCK - 1) // BLOCK):
            yield {'kind': 'enum', 'n': n, 'block': b}
    nrand = 60 if ctx.tier == 'quick' else 40000
    for b in range(nrand):
        yield {'kind': 'rand', 'batch': b}
    for b in range(12 if ctx.tier == 'quick' else 4000):
        yield {'kind': 'displ', 'batch': b}
    for b in range(6 if ctx.tier == 'quick' else 2000):
        yield {'kind': 'emb', 'batch': b}
    for b in range(40 if ctx.tier == 'quick' else 20000):
        yield {'kind': 'seq', 'batch': b}


def prufer_from_index(idx, n):
    seq = []
    for _ in range(n - 2):
        seq.append(idx % n)
        idx //= n
    return seq


_flags = []


def bonds_table(rng, n, edges, pos, agree, shuffle=True):
    info = {i: [] for i in range(n)}
    same = None if agree or rng.random() < 0.6 else float(rng.choice([0.47, 0.35, 0.1, 1.0]))   # one length for every bond (ideal CG model)
    if same is not None:
        _flags.append('table:all-bonds-one-length')
    # the table in another length unit than the coordinates (Angstrom against nm, or the other way round)
    unit = None if agree or same is not None or rng.random() < 0.7 else float(rng.choice([10.0, 0.1]))
    if unit is not None:
        _flags.append('table:other-length-unit')
    for a, b in edges:
        length = float(np.linalg.norm(pos[a] - pos[b])) if agree else (same if same is not None else float(rng.uniform(0.05, 0.6)))
        if unit is not None:
            length = float(np.linalg.norm(pos[a] - pos[b])) * unit
        info[a].append((b, length))
        info[b].append((a, length))
    for i in info:
        if shuffle and len(info[i]) > 1:
            order = rng.permutation(len(info[i]))
            info[i] = [info[i][k] for k in order]
    keys = [i for i, v in info.items() if v]
    if shuffle and rng.random() < 0.5:
        keys = [keys[int(k)] for k in rng.permutation(len(keys))]          # keys inserted in another order
    return {i: info[i] for i in keys}


def gen_displ(rng, cls, pos, info, atom):
    if cls == 'random':
        return rng.normal(size=3) * 10.0 ** rng.uniform(-3, 0.5)
    if cls == 'along-bond':
        j = info[atom][0][0]
        return (pos[j] - pos[atom]) * rng.uniform(-1.5, 1.5)
    if cls == 'perpendicular':
        j = info[atom][0][0]
        d = np.cross(pos[j] - pos[atom], rng.normal(size=3))
        return d / np.linalg.norm(d) * rng.uniform(0.01, 1)
    if cls == 'huge':
        return rng.normal(size=3) * 1e3
    if cls == 'tiny':
        return rng.normal(size=3) * 1e-9
    return None  # drawn by the library


DISPL_CLASSES = ['random', 'along-bond', 'perpendicular', 'huge', 'tiny', 'drawn']


def one_move(ctx, rng, n, edges, atom, kind, key=None, dcls=None):
    import gaddlemaps
    pos = gen.embed_graph(rng, n, edges) if rng.random() < 0.6 else gen.random_positions(rng, n)
    agree = rng.random() < 0.5
    info = bonds_table(rng, n, edges, pos, agree)
    dcls = dcls or DISPL_CLASSES[int(rng.integers(0, len(DISPL_CLASSES)))]
    displ = gen_displ(rng, dcls, pos, info, atom)
    sigma = float(10.0 ** rng.uniform(-3, 1))
    np.random.seed(int(rng.integers(0, 2**31 - 1)))
    real_move = gaddlemaps.move_mol_atom
    caller = core.next_settings(ctx)

    def move(*a, **k):
        # under the warning / floating-point settings a caller may have chosen; the unchanged function is silent and is
        # not expected to be refused because of them
        with core.settings(caller):
            return real_move(*a, **k)
    try:
        if displ is None:
            out = move(pos, info, atom_index=atom, sigma_scale=sigma)
        elif rng.random() < 0.1:
            out = move(pos, info, displ=displ) if rng.random() < 0.5 else move(pos, info, None, displ)
            ctx.hit('call:displacement-given-atom-omitted')
        else:
            out = move(pos, info, atom_index=atom, displ=displ)
    except Exception as exc:  # noqa
        ctx.violation(f'move-raises:{type(exc).__name__}', f'{exc}',
                      witness={'n': n, 'edges': edges, 'atom': atom, 'pos': pos, 'displ': displ})
        return
    ctx.count('evaluations')
    ctx.hit('table:agrees' if agree else 'table:disagrees')
    while _flags:
        ctx.hit(_flags.pop())
    ctx.hit('displacement:' + dcls)
    ctx.hit('graph:' + kind)
    deg = len(info[atom])
    ctx.nontrivial(key if key is not None else (kind, n, min(deg, 4), dcls, agree))
    return pos, info, displ, out


def run_enum(ctx, case):
    n, block = case['n'], case['block']
    total = 1 if n <= 2 else n ** (n - 2)
    rng = ctx.rng('enum', n, block)
    sample_only = ctx.tier == 'quick' and n == 7
    for idx in range(block * BLOCK, min(total, (block + 1) * BLOCK)):
        if sample_only and idx % 10 != (ctx.seed % 10):
            continue
        edges = gen.prufer_to_edges(prufer_from_index(idx, n), n)
        for atom in range(n):
            r = one_move(ctx, rng, n, edges, atom, 'enum-tree', key=('enum', n, idx, atom))
            if r and idx == 0 and atom == 0:
                ctx.sample({'kind': 'enumerated tree', 'n': n, 'edges': edges, 'moved': atom,
                            'pos': r[0], 'displ': r[2], 'out': r[3]})
        ctx.count(f'enumerated_trees_n{n}')
    if not sample_only:
        ctx.extra.setdefault('enumerated_tree_blocks', {}).setdefault(f'n{n}', 0)
        ctx.extra['enumerated_tree_blocks'][f'n{n}'] += 1


def run_rand(ctx, case):
    rng = ctx.rng('rand', case['batch'])
    for _ in range(40):
        n = int(rng.integers(2, 61))
        r = rng.random()
        if r < 0.45:
            kind, edges = 'tree', gen.random_tree(rng, n)
        elif r < 0.8 and n >= 3:
            kind, edges = gen.random_connected_graph(rng, n, kind=['ring', 'cyclic', 'complete'][int(rng.integers(0, 3))])
        else:
            n = max(n, 4)
            parts = int(rng.integers(2, max(3, n // 2)))
            # forests without singleton components
            while True:
                edges = gen.random_forest(rng, n, parts)
                if all(len(c) >= 2 for c in gen.components(n, edges)):
                    break
                parts = max(2, parts - 1)
            kind = 'forest'
        atom = int(rng.integers(0, n))
        one_move(ctx, rng, n, edges, atom, kind)


def run_displ(ctx, case):
    """find_atom_random_displ driven directly: atoms with 1, 2, 3, 4+ neighbours."""
    import gaddlemaps
    rng = ctx.rng('displ', case['batch'])
    for _ in range(100):
        deg = int(rng.integers(1, 7))
        n = deg + 1 + int(rng.integers(0, 5))
        edges = [(0, i) for i in range(1, deg + 1)] + [(i - 1, i) for i in range(deg + 1, n)]
        perm = rng.permutation(n)
        edges = [(int(perm[a]), int(perm[b])) for a, b in edges]
        atom = int(perm[0])
        pos = gen.random_positions(rng, n, scale=10.0 ** rng.uniform(-2, 2))
        info = bonds_table(rng, n, edges, pos, True)
        np.random.seed(int(rng.integers(0, 2**31 - 1)))
        d = gaddlemaps.find_atom_random_displ(pos, info, atom, sigma_scale=float(10.0 ** rng.uniform(-3, 1)))
        ctx.count('evaluations')
        ctx.hit('displ:' + (str(deg) if deg < 4 else '4+'))
        ctx.nontrivial(('displ', min(deg, 4), n))
        if not np.all(np.isfinite(d)):
            continue


def run_emb(ctx, case):
    """Moves made by the Monte-Carlo engine itself (single-atom moves only)."""
    import gaddlemaps
    rng = ctx.rng('emb', case['batch'])
    n = int(rng.integers(2, 30))
    cyclic = rng.random() < 0.3 and n >= 3
    edges = gen.random_connected_graph(rng, n, 'cyclic')[1] if cyclic else gen.random_tree(rng, n)
    pos = gen.embed_graph(rng, n, edges)
    mob = gen.make_molecule('MOB', gen.atom_names(n, 'B'), edges, pos)
    fixed = gen.random_positions(rng, int(rng.integers(n, 45)))
    np.random.seed(ctx.libseed('emb', case['batch']))
    gaddlemaps.minimize_molecules(fixed, mob.atoms_positions, mob.geometric_center, float(rng.choice([0.1, 0.5, 2.0])),
                                  int(rng.integers(30, 120)), [], mob.bonds_distance, 0.3,
                                  (2,) if rng.random() < 0.5 else (0, 1, 2))
    ctx.count('evaluations')
    ctx.hit('embedded:mc-moves')


def run_seq(ctx, case):
    """Call sequences that re-use objects: the same table dict and the same coordinate array are passed again and
    again, and between calls they are edited in place (lengths rescaled, a bond re-attached elsewhere, atoms shifted)
    or swapped for another table of the same size.  The contract judges every call against the arguments of that
    call, so anything remembered from an earlier call shows."""
    import gaddlemaps
    rng = ctx.rng('seq', case['batch'])
    move = gaddlemaps.move_mol_atom
    n = int(rng.integers(3, 25))
    edges = gen.random_tree(rng, n)
    pos = gen.embed_graph(rng, n, edges)
    info = bonds_table(rng, n, edges, pos, bool(rng.random() < 0.5))
    other_edges = gen.random_tree(rng, n)
    other = bonds_table(rng, n, other_edges, pos, False)
    hot = [int(a) for a in rng.integers(0, n, 3)]
    ops = []
    for step in range(int(rng.integers(6, 16))):
        op = ['same', 'same', 'lengths', 'graph', 'positions', 'swap'][int(rng.integers(0, 6))] if step else 'same'
        table = info
        if op == 'lengths':
            f = float(rng.choice([10.0, 0.1, rng.uniform(0.5, 2.0)]))
            for x in list(info):
                for idx, (y, l) in enumerate(info[x]):
                    if x < y and rng.random() < 0.6:
                        info[x][idx] = (y, l * f)                       # edited inside the same list objects
                        info[y][[j for j, _ in info[y]].index(x)] = (x, l * f)
            ctx.hit('sequence:table-lengths-edited-in-place')
        elif op == 'graph':
            # detach a leaf and attach it to another atom: still a tree, same dict object
            leaves = [a for a in info if len(info[a]) == 1]
            leaf = leaves[int(rng.integers(0, len(leaves)))]
            parent, length = info[leaf][0]
            cands = [a for a in range(n) if a not in (leaf, parent)]
            newp = cands[int(rng.integers(0, len(cands)))]
            info[parent] = [(j, l) for j, l in info[parent] if j != leaf]
            if not info[parent]:
                info[parent] = [(leaf, length)]
                info[leaf] = [(parent, length)]
            else:
                info[leaf] = [(newp, length)]
                info.setdefault(newp, []).append((leaf, length))
            ctx.hit('sequence:table-graph-edited-in-place')
        elif op == 'positions':
            pos += rng.normal(size=pos.shape) * 0.05
            ctx.hit('sequence:positions-edited-in-place')
        elif op == 'swap':
            table = other
            ctx.hit('sequence:other-table-same-size')
        else:
            ctx.hit('sequence:same-table-object')
        atom = hot[int(rng.integers(0, 3))] if rng.random() < 0.7 else int(rng.integers(0, n))
        displ = rng.normal(size=3) * 10.0 ** rng.uniform(-2, 0)
        ops.append(op)
        if rng.random() < 0.15:
            # a call that is refused (a displacement with two components, a negative width for the random draw) between
            # two good ones: whatever it left behind must not reach the next call
            bad_atom = int(rng.integers(0, n))              # usually not the atom of the next good call
            bad_table = other if rng.random() < 0.3 else table
            try:
                if rng.random() < 0.5:
                    move(pos, bad_table, atom_index=bad_atom, displ=np.array([0.1, 0.2]))
                else:
                    move(pos, bad_table, atom_index=bad_atom, sigma_scale=-1.0)
                ctx.count('malformed_call_accepted')
            except Exception:  # noqa
                ctx.hit('sequence:refused-call-before')
            ops.append('refused-call')
        try:
            if rng.random() < 0.8:
                out = move(pos, table, atom_index=atom, displ=displ)
            else:
                np.random.seed(int(rng.integers(0, 2**31 - 1)))
                out = move(pos, table, atom_index=atom, sigma_scale=0.5)
        except Exception as exc:  # noqa
            ctx.violation(f'move-raises:{type(exc).__name__}', f'{exc}', witness={'n': n, 'ops': ops, 'atom': atom})
            return
        ctx.count('evaluations')
        if rng.random() < 0.5:
            pos[:] = out        # the next call starts from the moved configuration, same array object
    ctx.nontrivial(('seq', n, tuple(sorted(set(ops)))))


def run_case(ctx, case):
    {'enum': run_enum, 'rand': run_rand, 'displ': run_displ, 'emb': run_emb, 'seq': run_seq}[case['kind']](ctx, case)


def finalize(ctx):
    blocks = ctx.extra.get('enumerated_tree_blocks', {})
    complete = {}
    for n in range(2, 8):
        total = 1 if n <= 2 else n ** (n - 2)
        need = (total + BLOCK - 1) // BLOCK
        complete[f'n{n}'] = blocks.get(f'n{n}', 0) >= need
    ctx.extra['enumerated_completely'] = complete
    ctx.extra['exhaustive'] = False
    ctx.note('exhaustive only for the labelled trees listed under enumerated_completely (x every moved atom); '
             'coordinates, displacements and tables are sampled')
