"""
C09 - Monte-Carlo search: consistent energies, Metropolis rule, exact stop.

Deciding monitor: offline trace checker (mctrace.check_trace) over the events of
real minimize_molecules runs: every overlap evaluation (configuration copy +
value), every acceptance decision with the uniform draw observed inside it,
every single-atom move (input/output), and the returned array, replayed against
the sequential specification of the property.  accept_metropolis is also driven
directly over a wide range of energy ratios.
"""
import numpy as np

from .. import bus, cover, gen, mctrace, ref

LEVEL = 'exploration'
JOBS = {'quick': 4, 'thorough': 16}
REQUIRED_MONITORS = ('trace_checked', 'metropolis_direct', 'acceptance_draw_observed', 'ring_moves_checked')
REQUIRED_CLASSES = ('types:(0,)', 'types:(1,)', 'types:(2,)', 'types:(0, 1, 2)', 'types:(0, 1)', 'budget:1', 'budget:2',
                    'budget:>=100', 'restraints:none', 'restraints:partial', 'restraints:all-fixed', 'restraints:mobile-in-order', 'worse-accepted',
                    'worse-rejected', 'improved', 'units:small', 'units:large', 'proposal:non-finite-measure', 'mobile:multi-residue', 'bond-table:keys-in-another-order', 'proposal:translation', 'proposal:rotation', 'proposal:atom-move', 'run:interrupted-then-started-again')
RULE = ('runs of minimize_molecules over (mobile molecule: random tree / cyclic graph 1..25 atoms) x (fixed set 1..40 points) '
        'x deformation-type subset x step budget {1,2,3,10,100,2000, random} x restraint class x seed. Every step of every run '
        'is checked. Non-trivial run: at least one accepted and one rejected proposal. distinct = distinct (n_mobile, n_fixed, '
        'types, budget, restraint class, steps bucket)')
ASSUMPTIONS = [
    'the loop resolves Chi2Calculator, accept_metropolis, move_mol_atom and rotation_matrix through gaddlemaps._backend module '
    'names at call time (otherwise no events are seen and the run is inconclusive, not passed)',
    'the acceptance draw is taken with numpy.random.rand inside accept_metropolis; when it is not observed the rule is only '
    'judged statistically (binomial, 6 sigma over all worse proposals of the run set)',
    'pure-python engine (the compiled backend is not installed in this sandbox)',
]
_cov = cover.Coverage()


def setup(ctx):
    import gaddlemaps._backend as be
    _cov.watch_attr(be, '_minimize_molecules')
    _cov.watch_attr(be, 'accept_metropolis')
    _cov.start()


def teardown(ctx):
    _cov.stop()
    ctx.take_coverage(_cov)


TYPES = [(0,), (1,), (2,), (0, 1), (0, 2), (1, 2), (0, 1, 2)]
BUDGETS = [1, 2, 3, 10, 100, 2000]


def cases(ctx):
    n = 320 if ctx.tier == 'quick' else 20000
    for i in range(n):
        yield {'kind': 'run', 'i': i}
    for i in range(4 if ctx.tier == 'quick' else 64):
        yield {'kind': 'direct', 'i': i}


def gen_restraints(rng, cls, nf, nm):
    if cls == 'none':
        return []
    if cls == 'all-fixed':
        return [(i, int(rng.integers(0, nm))) for i in range(nf)]
    if cls == 'mobile-in-order':
        # every mobile atom restrained once, listed in the order of the mobile atoms (a consecutive run of mobile indices)
        lo = 0 if rng.random() < 0.6 else int(rng.integers(0, max(1, nm - 1)))
        return [(int(rng.integers(0, nf)), j) for j in range(lo, nm)]
    k = int(rng.integers(1, max(2, nf)))
    pairs = {(int(i), int(rng.integers(0, nm))) for i in rng.choice(nf, min(k, nf), replace=False)}
    if len({i for i, _ in pairs}) == nf and nf > 1:
        pairs.pop()
    return sorted(pairs)


# longest trace kept of one run (steps); a healthy run of the largest budget needs a small fraction of it
STEP_CAP = 150000


def w0(loc):
    return {k: loc.get(k) for k in ('nm', 'nf', 'types', 'budget', 'seed')}


def run_run(ctx, case):
    import gaddlemaps
    i = case['i']
    rng = ctx.rng('run', i)
    types = TYPES[i % len(TYPES)]
    nm = int(rng.integers(2 if 2 in types else 1, 26))
    cyclic = nm >= 3 and rng.random() < 0.25
    fan = i % 9 == 4
    if fan:
        types = [(2,), (0, 1, 2), (0, 2), (1, 2)][(i // 9) % 4]
        nm = int(rng.integers(4, 8))
        cyclic = False
    edges = gen.random_connected_graph(rng, nm, 'cyclic')[1] if cyclic else gen.random_tree(rng, nm)
    if fan:
        edges = gen.random_connected_graph(rng, nm, 'star')[1]
    pos = gen.embed_graph(rng, nm, edges) if nm > 1 else rng.normal(size=(1, 3))
    if fan:
        # idealised geometry: all atoms bonded to one atom lie on a straight line, so a single-atom move of that atom has no
        # defined direction and its proposal has no finite measure
        adj = gen.adjacency(nm, edges)
        hubs = [a for a in range(nm) if len(adj[a]) >= 3]
        if hubs:
            c = hubs[int(rng.integers(0, len(hubs)))]
            u = np.eye(3)[int(rng.integers(0, 3))] if rng.random() < 0.5 else rng.normal(size=3)
            u = u / np.linalg.norm(u)
            v = np.cross(u, rng.normal(size=3))
            v = 0.25 * v / np.linalg.norm(v)
            trial = pos.copy()
            for k, nb in enumerate(sorted(adj[c])):
                trial[nb] = trial[c] + v + (k - 1) * 0.2 * u
            if gen.min_pair_distance(trial) > 1e-3:
                pos = trial
                ctx.hit('mobile:collinear-neighbours')
    if nm >= 2 and i % 3 == 1:
        # a mobile molecule of several residues (the bond table handed to the search is the molecule's own)
        nres = int(rng.integers(2, min(nm, 4) + 1))
        cuts = sorted(int(x) for x in rng.choice(np.arange(1, nm), nres - 1, replace=False))
        rid = [int(r) + 1 for r in np.searchsorted(cuts, np.arange(nm), side='right')]
        mob = gen.make_molecule('MOB', gen.atom_names(nm, 'B'), edges, pos, resnames=[f'M{r}' for r in rid], resids=rid)
        ctx.hit('mobile:multi-residue')
    else:
        mob = gen.make_molecule('MOB', gen.atom_names(nm, 'B'), edges, pos)
    nf = int(rng.integers(1, 41))
    fixed = gen.random_positions(rng, nf) + rng.normal(size=3) * rng.choice([0.0, 0.5, 3.0])
    rcls = ['none', 'partial', 'all-fixed', 'mobile-in-order'][int(rng.integers(0, 4))]
    restr = gen_restraints(rng, rcls, nf, nm)
    big_ok = ctx.tier == 'thorough' or i % 40 == 0
    budget = BUDGETS[(i // len(TYPES)) % len(BUDGETS)] if rng.random() < 0.7 else int(rng.integers(1, 2001 if big_ok else 120))
    if budget > 120 and not big_ok:
        budget = 100
    if fan:
        budget = max(budget, 60)
    bonds = mob.bonds_distance if nm > 1 else {}
    initial = np.array(mob.atoms_positions)
    if bonds and i % 2:
        # same table, keys inserted in another order (a dict filled by hand from an unsorted bond list)
        keys = [list(bonds)[int(k)] for k in rng.permutation(len(bonds))]
        bonds = {k: list(bonds[k]) for k in keys}
        ctx.hit('bond-table:keys-in-another-order')
    # length unit of the whole problem: nm, Angstrom-like (x10), micrometres (x1e-3), 1e-5 and 1e3
    unit = 1.0 if i % 5 else float([1e-3, 1e-5, 10.0, 1e3, 1e-4][(i // 5) % 5])
    if unit != 1.0:
        initial = initial * unit
        fixed = fixed * unit
        bonds = {a: [(b, l * unit) for b, l in lst] for a, lst in bonds.items()}
        ctx.hit('units:small' if unit < 1 else 'units:large')
    sigma = float(rng.choice([0.1, 0.5, 1.5]))
    width = float(rng.uniform(0.1, 0.8)) * unit
    seed = ctx.libseed('run', i)
    np.random.seed(seed)
    if i % 7 == 5:
        # the search is interrupted from outside (Ctrl-C: KeyboardInterrupt out of the k-th random draw): it must not
        # come back as if it had finished; the caller then simply starts it again (the traced run below)
        real_choice, left = np.random.choice, [int(rng.integers(1, 40))]

        def choice(*a, **k):
            left[0] -= 1
            if left[0] <= 0:
                raise KeyboardInterrupt()
            return real_choice(*a, **k)
        ctx.hit('run:interrupted-then-started-again')
        try:
            with bus.patched(np.random, 'choice', choice):
                gaddlemaps._backend.minimize_molecules(fixed, initial.copy(), initial.mean(axis=0), sigma, budget, restr, bonds, width, types)
            if left[0] <= 0:
                ctx.violation('interrupted-search-returned-as-if-finished',
                              'a KeyboardInterrupt raised inside the search loop was swallowed: the search returned a configuration', witness=w0(locals()))
        except KeyboardInterrupt:
            pass
        except Exception as exc:  # noqa
            ctx.violation(f'minimize-raises:{type(exc).__name__}', str(exc)[:200])
        np.random.seed(seed)
    tracer = mctrace.Tracer(n_steps=budget, max_steps=STEP_CAP)
    cut = False
    w = {'n_mobile': nm, 'n_fixed': nf, 'unit': unit, 'types': types, 'budget': budget, 'restraints': restr[:10], 'seed': seed}
    try:
        with tracer.recording():
            returned = gaddlemaps._backend.minimize_molecules(fixed, initial.copy(), initial.mean(axis=0), sigma, budget,
                                                              restr, bonds, width, types)
    except mctrace.TraceCut:
        # the search kept finding new lowest measures for STEP_CAP steps (rounding-level improvements on a problem whose
        # measure hardly depends on the enabled moves): the recorder stops it; everything recorded is still judged
        cut, returned = True, None
        ctx.count('runs_cut_at_step_cap')
        ctx.hit('run:cut-at-step-cap')
    except mctrace.RanPastBudget as exc:
        ctx.count('evaluations')
        ctx.monitor('trace_checked')
        ctx.violation('ran-past-the-step-budget', f'the search did not stop: {exc}', witness=w)
        return
    except Exception as exc:  # noqa
        ctx.violation(f'minimize-raises:{type(exc).__name__}', str(exc)[:200], witness=w)
        return
    ctx.count('evaluations')
    problems, stats = mctrace.check_trace(tracer.events, initial, budget, types, returned, cut=cut)
    if problems and problems[0][0] == 'trace-empty':
        ctx.inconclusive_because('the Monte-Carlo loop produced no observable events (helpers no longer resolved through module names?)')
        return
    ctx.monitor('trace_checked')
    ctx.count('steps_checked', stats['steps'])
    ctx.count('accepted', stats['accepted'])
    ctx.count('worse_proposals', stats['worse'])
    if stats.get('nonfinite'):
        ctx.count('proposals_without_finite_measure', stats['nonfinite'])
        ctx.hit('proposal:non-finite-measure')
    ctx.count('worse_accepted', stats['worse_accepted'])
    ctx.count('worse_p_sum_x1e6', int(stats['p_sum'] * 1e6))
    ctx.count('worse_pq_sum_x1e6', int(stats['pq_sum'] * 1e6))
    if stats['draw_observed']:
        ctx.monitor('acceptance_draw_observed', stats['draw_observed'])
    ctx.hit(f'types:{types}')
    ctx.hit('budget:' + (str(budget) if budget < 100 else '>=100'))
    ctx.hit('restraints:' + rcls)
    if stats['worse_accepted']:
        ctx.hit('worse-accepted')
    if stats['worse'] > stats['worse_accepted']:
        ctx.hit('worse-rejected')
    if stats['improved']:
        ctx.hit('improved')
    for k, name in ((0, 'translation'), (1, 'rotation'), (2, 'atom-move')):
        if stats['types'][k]:
            ctx.hit('proposal:' + name)
    for mech, msg in problems:
        ctx.violation(mech, msg, witness=w)
    # single-atom moves of the trace keep the tabulated bonds of an acyclic molecule
    if cyclic and nm > 1:
        # rings: every bond of the traversal tree rooted at the moved atom is exact, so the bonds that have their
        # tabulated length must connect the whole molecule (whichever atom was moved)
        table = {(min(a, b), max(a, b)): l for a, lst in bonds.items() for b, l in lst}
        for ev in tracer.events:
            if ev[0] == 'move' and np.all(np.isfinite(ev[2])):
                out = ev[2]
                exact = [e for e, l in table.items() if abs(np.linalg.norm(out[e[0]] - out[e[1]]) - l) <= 1e-9 * l]
                ctx.monitor('ring_moves_checked')
                if not ref.connected(nm, exact):
                    ctx.violation('atom-move-not-bond-preserving:ring', f'after a single-atom move only {len(exact)} of {len(table)} bonds have their '
                                  'tabulated length and they do not connect the molecule', witness=dict(w, edges=edges))
                    break
    if not cyclic and nm > 1:
        # bond-preserving with respect to the configuration the search started from: lengths measured here on the
        # initial coordinates along the generator's own bonds (not read from the table the library built)
        table = {(min(a, b), max(a, b)): float(np.linalg.norm(initial[a] - initial[b])) for a, b in edges}
        for ev in tracer.events:
            if ev[0] == 'move':
                out = ev[2]
                for (a, b), l in table.items():
                    if abs(np.linalg.norm(out[a] - out[b]) - l) > 1e-9 * l:
                        ctx.violation('atom-move-not-bond-preserving', f'bond {a}-{b} has length {np.linalg.norm(out[a] - out[b])!r}, table {l!r}', witness=w)
                        break
                else:
                    continue
                break
    if stats['accepted'] and stats['steps'] > stats['accepted']:
        ctx.nontrivial((nm, nf, types, budget, rcls, min(stats['steps'] // 200, 10)))
    if i < 3:
        ctx.sample({'n_mobile': nm, 'n_fixed': nf, 'types': types, 'budget': budget, 'restraint_class': rcls, 'seed': seed,
                    'steps': stats['steps'], 'accepted': stats['accepted'], 'worse': stats['worse'],
                    'worse_accepted': stats['worse_accepted'], 'improvements': stats['improved'],
                    'first_events': [(e[0],) + tuple(repr(x)[:40] for x in e[1:3]) for e in tracer.events[:8]]})


def run_direct(ctx, case):
    """accept_metropolis driven directly, the uniform draw observed."""
    import gaddlemaps
    rng = ctx.rng('direct', case['i'])
    np.random.seed(ctx.libseed('direct', case['i']))
    draws = []
    real_rand = np.random.rand

    def rand(*a):
        v = real_rand(*a)
        draws.append(float(v))
        return v
    acc = gaddlemaps._backend.accept_metropolis
    n = 25000
    with bus.patched(np.random, 'rand', rand):
        for k in range(n):
            cls = int(rng.integers(0, 5))
            e0 = float(10.0 ** rng.uniform(-6, 6))
            if k % 500 == 499:
                # a proposal whose measure is not a number is never "equal or lower" and has no acceptance probability
                d = bool(acc(e0, float('nan')))
                ctx.monitor('metropolis_direct')
                if d:
                    ctx.violation('non-finite-proposal-accepted', f'accept_metropolis({e0!r}, nan) = True', witness={'e0': e0})
                continue
            if cls == 0:
                e1 = e0
            elif cls == 1:
                e1 = e0 * float(10.0 ** rng.uniform(-6, 0))
            elif cls == 2:
                e1 = e0 * float(10.0 ** rng.uniform(0, 6))
            elif cls == 3:
                e1 = e0 * float(1 + 10.0 ** rng.uniform(-12, -1))      # barely worse: p close to 0.01
            else:
                e0, e1 = 0.0, float(10.0 ** rng.uniform(-6, 6))
            if rng.random() < 0.5:
                e0, e1 = np.float64(e0), np.float64(e1)
            del draws[:]
            d = bool(acc(e0, e1))
            ctx.monitor('metropolis_direct')
            if e1 <= e0:
                if not d:
                    ctx.violation('equal-or-better-proposal-rejected', f'accept_metropolis({e0!r}, {e1!r}) = False', witness={'e0': float(e0), 'e1': float(e1)})
            else:
                p = 0.01 * float(e0) / float(e1)
                if len(draws) == 1:
                    ctx.monitor('acceptance_draw_observed')
                    if d != (draws[0] <= p):
                        ctx.violation('metropolis-rule-violated', f'accept_metropolis({e0!r}, {e1!r}) = {d} with draw {draws[0]!r}, p = {p!r}',
                                      witness={'e0': float(e0), 'e1': float(e1), 'draw': draws[0]})
                ctx.count('direct_worse')
                ctx.count('direct_worse_accepted', int(d))
                ctx.count('direct_p_sum_x1e9', int(p * 1e9))
    ctx.count('evaluations')
    ctx.nontrivial(('direct', case['i']))


def run_case(ctx, case):
    {'run': run_run, 'direct': run_direct}[case['kind']](ctx, case)


def finalize(ctx):
    # statistical fallback when the draw could not be observed for (part of) the worse proposals
    worse = ctx.counters.get('worse_proposals', 0)
    seen = ctx.monitors.get('acceptance_draw_observed', 0)
    if worse >= 200:
        mean = ctx.counters.get('worse_p_sum_x1e6', 0) / 1e6
        var = max(ctx.counters.get('worse_pq_sum_x1e6', 0) / 1e6, 1e-9)
        got = ctx.counters.get('worse_accepted', 0)
        z = (got - mean) / var ** 0.5
        ctx.extra['worse_acceptance_frequency'] = {'worse_proposals': worse, 'accepted': got, 'expected': round(mean, 3), 'z': round(z, 2)}
        if abs(z) > 6 and abs(got - mean) > 5:
            ctx.violation('metropolis-frequency-off', f'{got} of {worse} worse proposals accepted, expected {mean:.1f} (z = {z:.1f})')
    dn = ctx.counters.get('direct_worse', 0)
    if dn >= 1000:
        mean = ctx.counters.get('direct_p_sum_x1e9', 0) / 1e9
        got = ctx.counters.get('direct_worse_accepted', 0)
        z = (got - mean) / max(mean, 1e-9) ** 0.5
        ctx.extra['direct_acceptance_frequency'] = {'worse': dn, 'accepted': got, 'expected': round(mean, 2), 'z': round(z, 2)}
        if abs(z) > 6 and abs(got - mean) > 5:
            ctx.violation('metropolis-frequency-off', f'direct drive: {got} of {dn} worse proposals accepted, expected {mean:.1f} (z = {z:.1f})')
