"""
C15 - the topology reader yields exactly the file's atoms and bond graph.

Deciding monitor: generator ground truth (itpspec.gen_top) compared with
read_topology / MoleculeTop on the generated file; connectivity compared with a
union-find reference; copies compared for equality and independence.
"""
import os
import shutil
import sys
import tempfile

import numpy as np

from .. import carrier, core, cover, gen, itpspec, ref

LEVEL = 'exploration'
JOBS = {'quick': 2, 'thorough': 16}
REQUIRED_MONITORS = ('topology_vs_truth', 'connectivity_vs_unionfind', 'copy_isolation')
REQUIRED_CLASSES = ('include-target-exists', 'colliding-number-strings', 'copy:after-modification', 'numbering:gaps', 'numbering:offset', 'bonds-three-way', 'decorated', 'kind:forest', 'kind:cyclic', 'kind:disconnected-cyclic', 'bonds:exactly-n-1-disconnected', 'conditional-block-with-else',
                    'kind:chain', 'long-chain', 'multi-residue', 'connected:yes', 'connected:no',
                    'repeated-section', 'are_connected:Molecule.atoms', 'shipped', 'carrier:handle', 'carrier:handle-relative-then-chdir',
                    'carrier:handle-newline-untranslated', 'carrier:relative-path', 'settings:warnings-as-errors')
RULE = ('generated topology files: graph kind x size (1..3000) x atom numbering (plain/offset/gaps) x bond split over '
        'bonds/constraints/pairs x decorations x repeated sections; plus the shipped topologies (self-consistency). '
        'Non-trivial: at least one bond. distinct = distinct (kind, size bucket, numbering, split, decorated, repeated, multi-residue)')
ASSUMPTIONS = [
    'atom numbers strictly increasing (possibly with gaps and an arbitrary start); every bond refers to listed atoms',
    'section headers carry no trailing text; molecule names and atom names contain no blanks or semicolons',
    'default CPython recursion limit (1000) while the library code runs',
]
_cov = cover.Coverage()
_tmp = {}


def setup(ctx):
    import gaddlemaps.components as C
    import gaddlemaps.parsers._top_parsers as T
    for mod, name in ((T, '_itp_top_atoms'), (T, '_parse_itp_bonds'), (T, '_itp_top_name'), (C, 'are_connected'),
                      (C, '_find_connected_atoms')):
        _cov.watch_attr(mod, name)
    _cov.start()
    _tmp['dir'] = tempfile.mkdtemp(prefix='gmv_c15_')
    # the file named by the generated '#include "other.itp"' lines exists beside the topologies and lists bonded terms of
    # its own (an elastic network kept in a separate file): a preprocessor line is ignored, whatever it points to
    with open(os.path.join(_tmp['dir'], 'other.itp'), 'w') as fh:
        fh.write('; extra bonded terms\n[ bonds ]\n' + ''.join(f'  {i} {i + 2} 1 0.5 500\n' for i in range(1, 40))
                 + '[ constraints ]\n  1 4 1 0.3\n  2 5 1 0.3\n[ pairs ]\n  1 6 1\n  3 7 1\n')
    sys.setrecursionlimit(1000)


def teardown(ctx):
    _cov.stop()
    ctx.take_coverage(_cov)
    shutil.rmtree(_tmp['dir'], ignore_errors=True)


def cases(ctx):
    n = 500 if ctx.tier == 'quick' else 400000
    for i in range(n):
        yield {'kind': 'gen', 'i': i}
    for n_atoms in ((1000, 3000) if ctx.tier == 'quick' else (1000, 1500, 2000, 2500, 3000)):
        for shape in ('chain', 'star', 'chain-reversed', 'two-chains'):
            yield {'kind': 'long', 'n': n_atoms, 'shape': shape}
    yield {'kind': 'shipped'}


def _decoy():
    p = os.path.join(_tmp['dir'], f'decoy{os.getpid()}.itp')
    if not os.path.exists(p):
        with open(p, 'w') as fh:
            fh.write('[ moleculetype ]\nDECOY 1\n\n[ atoms ]\n1 X 1 DEC D1 1 0.0\n2 X 1 DEC D2 2 0.0\n\n[ bonds ]\n1 2 1 0.1 100\n')
    return p


def check_against_truth(ctx, path, truth, label):
    from gaddlemaps.parsers import read_topology
    from gaddlemaps.components import MoleculeTop, are_connected
    w = {'file': label, 'text_head': open(path).read()[:1500], 'classes': sorted(truth['classes'])}
    rep = 'repeated' if any(c.startswith('repeated-section:') and not c.endswith('dihedrals') for c in truth['classes']) else 'plain'
    try:
        # the same file handed over as a path, a relative name, or an open handle (see carrier.py); a decoy topology of
        # the same bare name waits in the directory the process moves to after opening a relative name
        k1, k2 = carrier.next_kind(ctx), carrier.next_kind(ctx)
        w['carriers'] = [k1, k2]
        # ... by a caller that may run with warnings turned into errors (the unchanged reader is silent)
        caller = core.next_settings(ctx, ('default', 'warnings-as-errors'))
        w['caller_settings'] = caller
        with carrier.carried(path, k1, decoy=_decoy()) as f1, core.settings(caller):
            name, atoms, bonds = read_topology(f1)
        with carrier.carried(path, k2, decoy=_decoy()) as f2, core.settings(caller):
            mt = MoleculeTop(f2)
    except Exception as exc:  # noqa
        ctx.violation(f'reader-raises:{type(exc).__name__}:{rep}', f'{type(exc).__name__}: {str(exc)[:200]}', witness=w)
        return None
    ctx.monitor('topology_vs_truth')
    if name != truth['name'] or mt.name != truth['name']:
        ctx.violation('name-differs', f'{name!r} != {truth["name"]!r}', witness=w)
    got_atoms = [tuple(a) for a in atoms]
    if got_atoms != truth['atoms']:
        ctx.violation('atoms-differ', f'first difference at {next((i for i, (a, b) in enumerate(zip(got_atoms, truth["atoms"])) if a != b), min(len(got_atoms), len(truth["atoms"])))}: '
                      f'{len(got_atoms)} atoms read, {len(truth["atoms"])} in file', witness=w)
        return None
    got_bonds = {(min(a, b), max(a, b)) for a, b in bonds}
    if got_bonds != truth['bonds']:
        missing = sorted(truth['bonds'] - got_bonds)[:5]
        extra = sorted(got_bonds - truth['bonds'])[:5]
        ctx.violation(f'bond-set-differs:{rep}', f'missing {missing} extra {extra} ({len(truth["bonds"])} bonds in file)', witness=w)
    # MoleculeTop: atoms, indices, symmetric bond relation
    adj = gen.adjacency(truth['n'], truth['bonds'])
    for i, at in enumerate(mt):
        if (at.name, at.resname, at.resid, at.index) != truth['atoms'][i] + (i,):
            ctx.violation('moleculetop-atom-differs', f'atom {i}: {(at.name, at.resname, at.resid, at.index)}', witness=w)
            break
        if set(at.bonds) != adj[i] and got_bonds == truth['bonds']:
            ctx.violation('moleculetop-bonds-asymmetric-or-wrong', f'atom {i}: bonds {sorted(at.bonds)[:8]} expected {sorted(adj[i])[:8]}', witness=w)
            break
    # connectivity
    want = ref.connected(truth['n'], truth['bonds'])
    if got_bonds == truth['bonds']:
        try:
            got = are_connected(mt.atoms)
        except RecursionError:
            ctx.violation('are_connected-recursion-error', f'RecursionError on {truth["n"]} atoms ({truth["kind"]})', witness={'n': truth['n'], 'kind': truth['kind']})
            got = None
        except Exception as exc:  # noqa
            ctx.violation(f'are_connected-raises:{type(exc).__name__}', str(exc)[:200], witness=w)
            got = None
        if got is not None:
            ctx.monitor('connectivity_vs_unionfind')
            ctx.hit('connected:' + ('yes' if want else 'no'))
            if bool(got) != want:
                ctx.violation('are_connected-wrong', f'are_connected={got}, union-find={want} ({truth["n"]} atoms, {truth["kind"]})', witness=w)
    return mt


def check_copy(ctx, mt, rng):
    ctx.monitor('copy_isolation')
    cp = mt.copy()
    if not (cp == mt) or (cp != mt):
        ctx.violation('copy-not-equal', 'MoleculeTop.copy() != original')
        return
    if len(cp) == 0:
        return
    snapshot = [(a.name, a.resname, a.resid, a.index, frozenset(a.bonds)) for a in mt]
    k = int(rng.integers(0, len(cp)))
    cp[k].name = 'ZZ'
    cp[k].resname = 'QQQ'
    cp[k].resid = 9999
    cp[k].bonds.add(len(cp) + 5)
    other = cp[(k + 1) % len(cp)]
    other.bonds.clear()
    if len(cp) > 1:
        cp.atoms.pop()
    now = [(a.name, a.resname, a.resid, a.index, frozenset(a.bonds)) for a in mt]
    if now != snapshot:
        ctx.violation('copy-shares-state', f'mutating the copy changed the original (atom {k})')
    # and the other way round
    cp2 = mt.copy()
    snap2 = [(a.name, a.resname, a.resid, a.index, frozenset(a.bonds)) for a in cp2]
    mt[k].bonds.add(len(mt) + 7)
    mt[k].name = 'YY'
    if [(a.name, a.resname, a.resid, a.index, frozenset(a.bonds)) for a in cp2] != snap2:
        ctx.violation('copy-shares-state', 'mutating the original changed the copy')
    mt[k].bonds.discard(len(mt) + 7)
    # a topology that was modified after loading (new bond, renamed atom, renumbered / relabelled residues) is copied as
    # it is now, not as it was loaded
    n = len(mt)
    full = lambda m: [(a.name, a.resname, a.resid, a.index, frozenset(a.bonds)) for a in m]
    try:
        if n >= 2:
            i, j = (int(x) for x in rng.choice(n, 2, replace=False))
            mt[i].connect(mt[j])
        mt[int(rng.integers(0, n))].name = 'MOD'
        mt.resids = [int(r) + 3 for r in mt.resids]
        if rng.random() < 0.5:
            mt.resnames = [f'M{q}' for q in range(len(mt.resnames))]
    except Exception as exc:  # noqa
        ctx.violation(f'topology-edit-raises:{type(exc).__name__}', str(exc)[:200])
        return
    ctx.hit('copy:after-modification')
    state = full(mt)
    cp3 = mt.copy()
    if full(cp3) != state or not (cp3 == mt):
        ctx.violation('copy-not-equal:after-modification', 'the copy of a topology modified after loading does not carry its current atoms / bonds / residue labels')
        return
    cp4 = cp3.copy()
    if full(cp4) != state:
        ctx.violation('copy-not-equal:after-modification', 'the copy of a copy differs from the topology it descends from')


def run_gen(ctx, case):
    i = case['i']
    rng = ctx.rng('gen', i)
    repeated = (i % 6 == 0)
    big = (i % 25 == 0)
    text, truth = itpspec.gen_top(rng, n=int(rng.integers(40, 400)) if big else None, repeated=repeated,
                                  trailing=('plain', 'single', 'multiple', 'empty', 'hash', 'nospace', 'multiple-last-empty', 'semicolons-only', 'hash-nospace'),
                                  sections_before_atoms=(i % 9 == 0))
    path = os.path.join(_tmp['dir'], f't{os.getpid()}.itp')
    with open(path, 'w') as fh:
        fh.write(text)
    if '#include "ff.itp"' in text:
        # the included file exists beside the topology and lists bonded terms between atoms of this very molecule
        nums = truth['numbers']
        with open(os.path.join(_tmp['dir'], 'ff.itp'), 'w') as fh:
            fh.write('; extra bonded terms kept in a separate file\n[ bonds ]\n')
            for _ in range(1 + len(nums) // 3):
                a, b = (int(x) for x in rng.choice(len(nums), 2, replace=len(nums) < 2))
                if a != b:
                    fh.write(f'  {nums[a]} {nums[b]} 1 0.5 500\n')
            fh.write('[ constraints ]\n' + (f'  {nums[0]} {nums[-1]} 1 0.3\n' if len(nums) > 1 else ''))
        ctx.hit('include-target-exists')
    ctx.count('evaluations')
    for c in truth['classes']:
        ctx.hit('repeated-section' if c.startswith('repeated-section:') else c)
    ctx.hit('kind:' + truth['kind'])
    if len(truth['bonds']) == truth['n'] - 1 and not ref.connected(truth['n'], truth['bonds']):
        ctx.hit('bonds:exactly-n-1-disconnected')
    if truth['bonds']:
        ctx.nontrivial((truth['kind'], min(truth['n'] // 10, 6), tuple(sorted(c for c in truth['classes'] if not c.startswith('trailing')))))
    mt = check_against_truth(ctx, path, truth, f'generated#{i}')
    if mt is None:
        return
    if i < 3:
        ctx.sample({'file_text': text[:600], 'truth_name': truth['name'], 'truth_atoms_head': truth['atoms'][:4],
                    'truth_bonds_head': sorted(truth['bonds'])[:6], 'numbers_head': truth['numbers'][:6]})
    # are_connected on Molecule.atoms (Atom objects built over the same topology)
    if i % 4 == 0 and truth['n'] <= 60:
        from gaddlemaps.components import are_connected, Molecule
        pos = gen.random_positions(rng, truth['n'])
        names = [a[0] for a in truth['atoms']]
        res = gen.make_residues(names, [a[1] for a in truth['atoms']], [a[2] for a in truth['atoms']], pos)
        try:
            mol = Molecule(mt, res)
            got = are_connected(mol.atoms)
        except Exception as exc:  # noqa
            ctx.violation(f'are_connected-on-molecule-raises:{type(exc).__name__}', str(exc)[:200])
        else:
            ctx.hit('are_connected:Molecule.atoms')
            if bool(got) != ref.connected(truth['n'], truth['bonds']) and not any(c.startswith('repeated-section:') for c in truth['classes']):
                ctx.violation('are_connected-wrong', f'on Molecule.atoms: {got}')
    # the documented signature MoleculeTop(ftop, file_format=None): format given positionally, by keyword, not at all
    from gaddlemaps.components import MoleculeTop
    try:
        variants = [MoleculeTop(path, 'itp'), MoleculeTop(path, file_format='itp'), MoleculeTop(ftop=path)]
        ctx.hit('api:file-format-positional')
        for v in variants:
            if v.name != mt.name or not (v == mt):
                ctx.violation('topology-depends-on-how-the-format-is-passed', f'name {v.name!r} vs {mt.name!r}')
                break
    except Exception as exc:  # noqa
        ctx.violation(f'reader-raises:{type(exc).__name__}:format-argument', str(exc)[:200])
    check_copy(ctx, mt, rng)


def run_long(ctx, case):
    rng = ctx.rng('long', case['n'], case['shape'])
    n, shape = case['n'], case['shape']
    path = os.path.join(_tmp['dir'], f'l{os.getpid()}.itp')
    if shape == 'chain':
        edges = gen.chain(n)
    elif shape == 'star':
        edges = gen.star(n)
    elif shape == 'chain-reversed':
        edges = [(i + 1, i) for i in range(n - 1)][::-1]
    else:
        edges = gen.chain(n // 2) + [(i, i + 1) for i in range(n // 2, n - 1)]
    names = [f'C{i % 1000}' for i in range(n)]
    atoms = gen.simple_itp_atoms(names, ['POL'] * n, [1] * n, numbers=[3 + 2 * i for i in range(n)])
    gen.write_itp(path, 'POLY', atoms, [('bonds', [(3 + 2 * a, 3 + 2 * b) for a, b in edges])])
    truth = {'name': 'POLY', 'atoms': [(names[i], 'POL', 1) for i in range(n)],
             'bonds': {(min(a, b), max(a, b)) for a, b in edges}, 'n': n, 'kind': shape, 'classes': {'long-chain'}}
    ctx.count('evaluations')
    ctx.hit('long-chain')
    ctx.hit('kind:chain')
    ctx.nontrivial(('long', shape, n))
    check_against_truth(ctx, path, truth, f'{shape}-{n}')


def run_shipped(ctx, case):
    """Shipped topologies: no independent truth, but internal consistency
    (symmetric bonds, indices, connectivity vs union-find, copy)."""
    import gaddlemaps
    from gaddlemaps.components import MoleculeTop, are_connected
    d = os.path.join(os.path.dirname(gaddlemaps.__file__), 'data')
    rng = ctx.rng('shipped')
    for f in sorted(os.listdir(d)):
        if not f.endswith('.itp'):
            continue
        mt = MoleculeTop(os.path.join(d, f))
        edges = set()
        for i, a in enumerate(mt):
            if a.index != i:
                ctx.violation('moleculetop-index-wrong', f'{f}: atom {i} has index {a.index}')
            for j in a.bonds:
                edges.add((min(i, j), max(i, j)))
                if i not in mt[j].bonds:
                    ctx.violation('moleculetop-bonds-asymmetric-or-wrong', f'{f}: {i}->{j} but not back')
        try:
            got = are_connected(mt.atoms)
        except RecursionError:
            ctx.violation('are_connected-recursion-error', f'RecursionError on shipped {f} ({len(mt)} atoms)')
            continue
        ctx.monitor('connectivity_vs_unionfind')
        if bool(got) != ref.connected(len(mt), edges):
            ctx.violation('are_connected-wrong', f'{f}: {got}')
        check_copy(ctx, mt, rng)
        ctx.count('evaluations')
        ctx.hit('shipped')
        ctx.nontrivial(('shipped', f))


def run_case(ctx, case):
    {'gen': run_gen, 'long': run_long, 'shipped': run_shipped}[case['kind']](ctx, case)
