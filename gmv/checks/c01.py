"""
C01 - an exchange map reproduces the aligned target (anchor-and-scale law).

Deciding monitor: the reference-model contract of emmon.py on
ExchangeMap.__call__ (law part: every target atom at a + s (p - a) for a nearest
>=2-bond atom a, recomputed from the bond graph and coordinates of the
arguments) plus a check of ExchangeMap.equivalences against the independent
nearest-anchor computation.  Workload: generated (reference, target, s) over
all geometry classes including exactly collinear and axis-aligned anchors, and
the shipped molecule pairs.
"""
import os

import numpy as np

from .. import cover, emmon, gen, monitors, ref

LEVEL = 'exploration'
JOBS = {'quick': 4, 'thorough': 16}
REQUIRED_MONITORS = ('em_law_contract', 'equivalences_vs_nearest_anchor')
REQUIRED_CLASSES = ('target:single-precision-coordinates', 'sequence:copy-of-the-map-after-reference-moved', 'reference:through-the-parsers', 'reference:bonds-with-colliding-number-strings', 'geometry:generic', 'geometry:linear-z', 'geometry:linear-x', 'geometry:linear-int',
                    'geometry:linear-moved', 'geometry:partial-collinear', 'geometry:planar-xy', 'geometry:lattice',
                    'anchor:collinear', 'anchor:generic', 'scale:one', 'scale:uniform', 'placement:far',
                    'placement:on-atoms', 'shipped-pair', 'sequence:construction-object-after-other-calls')
RULE = ('(reference, target, s): reference 3..40 atoms (tree/chain/star/ring/cyclic/complete) x geometry class x target '
        '1..120 atoms x placement class x s in {1, 0.5, U(0.02,2)}; plus shipped pairs. Non-trivial: >= 2 anchors and '
        'target atoms assigned to >= 2 anchors. distinct = distinct (n, degree-sequence hash, geometry, placement, s class, '
        'target size bucket)')
ASSUMPTIONS = [
    'atoms of a molecule at pairwise distinct positions',
    'every anchor frame is generic (sin >= 1e-2) or collinear to rounding (sin <= 1e-12); the band in between is not generated',
    'ties between nearest anchors within 1e-12 relative: any of the tied anchors is accepted',
    'tolerance 1e-9 nm (x 1e-3 |coordinates| for molecules placed thousands of nm away)',
]
_cov = cover.Coverage()


def setup(ctx):
    from gaddlemaps import _exchage_map
    EM = _exchage_map.ExchangeMap
    for name in ('_calculate_refsystems', '_calculate_refsystems_general', '_make_map', '_find_closest_ref',
                 '_restore_point', '_proyect_point', '_restore_molecule', '__call__'):
        f = EM.__dict__.get(name)
        if f is not None:
            _cov.watch(f, f'ExchangeMap.{name}')
    _cov.start()
    emmon.install_contract(ctx)


def teardown(ctx):
    _cov.stop()
    ctx.take_coverage(_cov)


def cases(ctx):
    n = 2000 if ctx.tier == 'quick' else 150000
    for b in range(n // 25):
        yield {'kind': 'gen', 'batch': b}
    for k, pair in enumerate(SHIPPED_PAIRS):
        if ctx.tier == 'quick' and pair[0].startswith('DNA'):
            continue
        yield {'kind': 'shipped', 'pair': k}
    for k in range(2 if ctx.tier == 'quick' else 40):
        yield {'kind': 'bigfile', 'i': k}


def check_equivalences(ctx, emap, model, w):
    ctx.monitor('equivalences_vs_nearest_anchor')
    try:
        eq = emap.equivalences
    except Exception as exc:  # noqa
        ctx.violation(f'equivalences-raises:{type(exc).__name__}', str(exc)[:200], witness=w)
        return 0
    seen = set()
    for a, ks in eq.items():
        for k in ks:
            seen.add(k)
            if a not in model.allowed[k]:
                d_used = float(np.linalg.norm(model.tgt_pos[k] - model.ref_pos[a])) if a < model.n else None
                d_best = float(np.linalg.norm(model.tgt_pos[k] - model.ref_pos[model.allowed[k][0]]))
                kind = 'not-an-anchor' if a not in model.anchors else 'not-nearest'
                ctx.violation(f'equivalences-{kind}', f'target atom {k} assigned to reference atom {a} ({kind}; '
                              f'distance {d_used}, nearest anchor {model.allowed[k][0]} at {d_best})', witness=w)
                return len(eq)
    if seen != set(range(len(model.tgt_pos))):
        ctx.violation('equivalences-incomplete', f'{len(seen)} of {len(model.tgt_pos)} target atoms listed', witness=w)
    return len(eq)


def run_gen(ctx, case):
    from gaddlemaps import ExchangeMap
    rng = ctx.rng('gen', case['batch'])
    for it in range(25):
        geometry = emmon.GEOMETRY[int(rng.integers(0, len(emmon.GEOMETRY)))]
        placement = emmon.PLACEMENT[int(rng.integers(0, len(emmon.PLACEMENT)))]
        scls = emmon.SCALES[int(rng.integers(0, 3))]
        edges, pos, info = emmon.gen_reference(rng, geometry)
        n = len(pos)
        if not ref.anchors_of(n, edges):
            continue
        if not emmon.frames_ok(n, edges, pos):
            ctx.count('rejected_illconditioned_reference')
            continue
        tpos = emmon.gen_target(rng, pos, placement)
        s = emmon.gen_scale(rng, scls)
        through_files = it % 10 == 3
        refm, tgtm = emmon.build_pair(rng, edges, pos, tpos, multi_res=rng.random() < 0.2, files=through_files)
        if through_files:
            pos = np.array(refm.atoms_positions)          # the three-decimal coordinates of the file
            if not emmon.frames_ok(n, edges, pos) or gen.min_pair_distance(pos) < 1e-3:
                ctx.count('rejected_illconditioned_reference')
                continue
            ctx.hit('reference:through-the-parsers')
        if it % 10 == 7 and not through_files:
            # the target's coordinates were assigned in single precision (as trajectory readers deliver them): the positions
            # "at construction" are then exactly those single-precision values, and the law is stated on them
            tpos = np.asarray(tpos, np.float32)
            tgtm.atoms_positions = tpos
            tpos = np.array(tgtm.atoms_positions, float)
            ctx.hit('target:single-precision-coordinates')
        w = {'edges': edges, 'ref': pos, 'target': tpos, 's': s, 'geometry': info['geometry']}
        try:
            emap = ExchangeMap(refm, tgtm, s)
            out = emap(refm if rng.random() < 0.5 else refm.copy())
        except Exception as exc:  # noqa
            ctx.violation(f'map-raises:{type(exc).__name__}:{info["geometry"]}', str(exc)[:200], witness=w)
            continue
        # the law must also hold on the construction configuration after the map has been used on
        # other configurations, whether the construction object itself or a copy is passed
        try:
            R, t = gen.random_rotation(rng), rng.normal(size=3) * 5
            emap(emmon.with_positions(refm, pos @ R.T + t))
            if it % 2:
                emmon.disturb(ctx, emap, tgtm, refm)
            emap(refm)
            other = refm.copy()
            other.atoms_positions = pos @ R.T
            emap(other)
            other.atoms_positions = pos.copy()          # same object, back on the construction coordinates
            emap(other)
            ctx.hit('sequence:construction-object-after-other-calls')
        except Exception as exc:  # noqa
            ctx.violation(f'map-raises-in-sequence:{type(exc).__name__}:{info["geometry"]}', str(exc)[:200], witness=w)
            continue
        if it % 5 == 1:
            # a copy of the map object, taken after the construction reference was moved away, still reproduces the target on
            # the construction configuration (exactly as the map itself does)
            import copy
            try:
                snap = emmon.with_positions(refm, pos)
                refm.move(rng.normal(size=3) * 2)
                a = np.array(emap(snap).atoms_positions)
                b = np.array(copy.copy(emap)(snap).atoms_positions)
                ctx.hit('sequence:copy-of-the-map-after-reference-moved')
                if a.shape != b.shape or np.abs(a - b).max() > 1e-12:
                    ctx.violation('copy-of-map-answers-differently', f'copy.copy(map) and the map differ by {np.abs(a - b).max():.3g} on the construction configuration', witness=w)
                refm.atoms_positions = pos.copy()
            except Exception as exc:  # noqa
                ctx.violation(f'map-raises-in-sequence:{type(exc).__name__}:{info["geometry"]}', str(exc)[:200], witness=w)
                continue
        ctx.count('evaluations')
        ctx.hit('geometry:' + info['geometry'])
        ctx.hit('placement:' + placement)
        ctx.hit('scale:' + scls)
        model = emap.__dict__.get('_gmv_model')
        if model is None:
            ctx.inconclusive_because('the contract could not build its model of a map')
            continue
        for a in model.anchors:
            ctx.hit('anchor:' + model.anchor_class(a))
        nanch = check_equivalences(ctx, emap, model, w)
        used = {al[0] for al in model.allowed if al}
        if len(model.anchors) >= 2 and len(used) >= 2:
            deg = tuple(sorted(np.bincount(np.array(edges).ravel(), minlength=n)))
            ctx.nontrivial((n, hash(deg) & 0xFFFF, info['geometry'], placement, scls, len(tpos) // 20))
        if it == 0 and case['batch'] < 3:
            ctx.sample({'geometry': info['geometry'], 'graph': info.get('kind'), 'n_ref': n, 'n_target': len(tpos),
                        's': s, 'edges': edges, 'ref_positions': pos[:6], 'anchors': model.anchors[:8],
                        'first_target_atom': {'p': tpos[0], 'anchor': model.allowed[0][:1],
                                              'mapped': out.atoms_positions[0]}})


SHIPPED_PAIRS = [('CUR_map.gro', 'CUR_CG.itp', 'CUR_AA.gro', 'CUR_AA.itp'),
                 ('VTE_map.gro', 'vitamin_E_CG.itp', 'VTE_AA.gro', 'VTE_AA.itp'),
                 ('BF4_CG.gro', 'BF4_CG.itp', 'BF4_AA.gro', 'BF4_AA.itp'),
                 ('DNA_map.gro', 'DNA_CG.itp', 'DNA_AA.gro', 'DNA_AA.itp'),
                 ('Protein_CG.gro', 'Protein_CG.itp', 'Protein_AA.gro', 'Protein_AA.itp')]


def load_shipped_pairs(only=None):
    import gaddlemaps
    from gaddlemaps.components import Molecule
    d = os.path.join(os.path.dirname(gaddlemaps.__file__), 'data')
    out = []
    for k, (g1, t1, g2, t2) in enumerate(SHIPPED_PAIRS):
        if only is not None and k != only:
            continue
        try:
            a = Molecule.from_files(os.path.join(d, g1), os.path.join(d, t1))
            b = Molecule.from_files(os.path.join(d, g2), os.path.join(d, t2))
        except Exception:  # noqa
            continue
        out.append((g1, a, b))
    return out


def run_shipped(ctx, case):
    from gaddlemaps import ExchangeMap
    for label, a, b in load_shipped_pairs(case.get('pair')):
        if len(a) < 3:
            continue
        b = b.copy()
        b.move_to(a.geometric_center)
        for s in (1.0, 0.5, 0.3, 1.7):
            emap = ExchangeMap(a, b, s)
            out = emap(a)
            ctx.count('evaluations')
            ctx.hit('shipped-pair')
            model = emap.__dict__.get('_gmv_model')
            if model is not None:
                check_equivalences(ctx, emap, model, {'pair': label, 's': s})
            ctx.nontrivial(('shipped', label, s))
        ctx.sample({'shipped_pair': label, 'n_ref': len(a), 'n_target': len(b)})


def run_bigfile(ctx, case):
    """A reference of 120..160 atoms read from an .itp / .gro pair numbered 1..n: a ring closed by the bond (1, 112)
    beside the chain bond (11, 12) - two bonds whose atom numbers, written one after the other, read the same - with
    target atoms around the atoms those bonds make anchors.  Judged against the generator's own bond graph."""
    import tempfile
    from gaddlemaps import ExchangeMap
    from gaddlemaps.components import Molecule
    rng = ctx.rng('bigfile', case['i'])
    n = int(rng.integers(120, 161))
    edges = sorted(set(gen.chain(n)) | {(0, 111)} | {(int(a), int(b)) for a, b in [sorted(rng.choice(n, 2, replace=False)) for _ in range(int(rng.integers(0, 4)))]})
    for _ in range(20):
        pos = gen.embed_graph(rng, n, edges)
        if emmon.frames_ok(n, edges, np.round(pos, 3)) and gen.min_pair_distance(np.round(pos, 3)) > 1e-3:
            break
    else:
        ctx.count('rejected_illconditioned_reference')
        return
    names = gen.atom_names(n, 'B')
    with tempfile.TemporaryDirectory(prefix='gmv_c01_') as d:
        itp, gro = os.path.join(d, 'big.itp'), os.path.join(d, 'big.gro')
        atoms = gen.simple_itp_atoms(names, ['BIG'] * n, [1] * n)
        gen.write_itp(itp, 'BIG', atoms, [('bonds', [(a + 1, b + 1) for a, b in edges])])
        gen.write_gro(gro, 'big', [(1, 'BIG', names[k], k + 1, tuple(float('%.3f' % x) for x in pos[k]), None) for k in range(n)], (60.0, 60.0, 60.0))
        try:
            refm = Molecule.from_files(gro, itp)
        except Exception as exc:  # noqa
            ctx.violation(f'reference-not-loadable:{type(exc).__name__}', str(exc)[:200])
            return
    object.__setattr__(refm, '_gmv_true_edges', [tuple(e) for e in edges])
    rpos = np.array(refm.atoms_positions)
    hot = [0, 10, 11, 111]
    tpos = np.concatenate([rpos[h] + rng.normal(size=(3, 3)) * 0.03 for h in hot] + [emmon.gen_target(rng, rpos, 'inside', mmax=40)])
    tgtm = gen.make_molecule('BIG', gen.atom_names(len(tpos), 'C'), gen.random_tree(rng, len(tpos)), tpos)
    s = float(rng.choice([0.3, 0.5, 1.7]))
    try:
        emap = ExchangeMap(refm, tgtm, s)
        emap(refm)                           # law and shape contracts fire here
    except Exception as exc:  # noqa
        ctx.violation(f'map-raises:{type(exc).__name__}:bigfile', str(exc)[:200])
        return
    ctx.count('evaluations')
    ctx.hit('reference:bonds-with-colliding-number-strings')
    check_equivalences(ctx, emap, emap.__dict__['_gmv_model'], {'n_ref': n, 'edges_extra': [e for e in edges if e[1] - e[0] != 1]})
    ctx.nontrivial(('bigfile', n, s))


def run_case(ctx, case):
    {'gen': run_gen, 'shipped': run_shipped, 'bigfile': run_bigfile}[case['kind']](ctx, case)
