"""
C10 - restraint pairs always designate the atoms the user (or the guesser) meant.

Deciding monitors:
 (a) boundary recorder on the optimiser entry point gaddlemaps._alignment.
     minimize_molecules (the wrapper records what arrives and returns the mobile
     coordinates unchanged: no search is needed); the received index pairs are
     translated back to atoms through their *unique coordinates* and compared
     with the user's pairs minus those whose fixed-side atom is a filtered
     hydrogen, in order;
 (b) post-conditions on guess_residue_restrains (all 1..40 x 1..40 sizes) and
     guess_protein_restrains (random multi-residue molecules, mismatching
     residue counts);
 (c) routing log of Manager.align_molecules: a wrapper on
     Alignment.align_molecules records (species, restraints, deformation types,
     hydrogen flag) of every alignment that is started.
"""
import os
import shutil
import tempfile

import numpy as np

from .. import core, bus, cover, gen, world

LEVEL = 'exploration'
JOBS = {'quick': 4, 'thorough': 16}
REQUIRED_MONITORS = ('optimiser_boundary', 'residue_guesser', 'protein_guesser', 'manager_routing', 'manager_rejection',
                     'manager_guessed_restraints')
REQUIRED_CLASSES = ('sizes:start-smaller', 'sizes:start-larger', 'sizes:tie', 'hydrogens:ignored', 'hydrogens:kept',
                    'pairs:on-hydrogen', 'pairs:duplicates', 'guess:mismatching-residue-count', 'routing:partial-dicts',
                    'routing:preparsed-own-order', 'call:repeated-same-list-object', 'end-molecule:attached-by-hand-named-like-another-species',
                    'reject:unknown-species', 'reject:malformed-pair', 'reject:index-out-of-range', 'reject:bad-deformation',
                    'reject:bad-hydrogen-flag', 'manager-guess:more-than-three-residues', 'manager-guess:start-smaller',
                    'manager-guess:start-larger', 'manager-guess:three-residues-or-fewer', 'stand-in:below-the-engine-front',
                    'settings:warnings-as-errors', 'recovery:refused-under-caller-settings-then-called-again')
RULE = ('(a) molecule pairs (either one larger or tie, random hydrogens in both) x restraint lists (empty, partial, duplicates, '
        'pairs on hydrogens) x ignore_hydrogens; (b) every (n1, n2) in 1..40 x 1..40 for the per-residue splitter [enumerated '
        'completely], random multi-residue molecules for the protein guesser; (c) generated 2-4 species systems x per-species '
        'option dictionaries for random subsets of species, unknown names, malformed values. Non-trivial (a): at least one '
        'pair survives and at least one is dropped or the roles are swapped. distinct = distinct case keys per part')
ASSUMPTIONS = [
    'atoms of one alignment have pairwise distinct coordinates (they identify the atoms at the optimiser boundary)',
    'hydrogens are atoms named H<digits>; the larger molecule keeps at least one non-hydrogen atom and one bond',
    '"rejected" = any exception raised before the first alignment is started',
    'an empty deformation tuple / empty restraint list means "default" (the library documents falsy values as default)',
]
_cov = cover.Coverage()
_tmp = {}


def setup(ctx):
    import gaddlemaps._alignment as A
    from gaddlemaps import Manager
    for f in (A.remove_hydrogens, A.guess_protein_restrains, A.guess_residue_restrains, A._split_list):
        _cov.watch(f)
    _cov.watch_attr(A.Alignment, 'align_molecules', 'Alignment.align_molecules')
    for name in ('align_molecules', 'parse_restrictions', '_validate_index', '_parse_deformations', '_parse_ignore_hydrogens'):
        _cov.watch_attr(Manager, name, f'Manager.{name}')
    _cov.start()
    _tmp['dir'] = tempfile.mkdtemp(prefix='gmv_c10_')


def teardown(ctx):
    _cov.stop()
    ctx.take_coverage(_cov)
    shutil.rmtree(_tmp['dir'], ignore_errors=True)


def cases(ctx):
    n = 2000 if ctx.tier == 'quick' else 600000
    for b in range(n // 50):
        yield {'kind': 'boundary', 'batch': b}
    for n1 in range(1, 41):
        yield {'kind': 'splitter', 'n1': n1}
    for b in range(10 if ctx.tier == 'quick' else 3000):
        yield {'kind': 'protein', 'batch': b}
    for i in range(30 if ctx.tier == 'quick' else 5000):
        yield {'kind': 'manager', 'i': i}


# ---------------------------------------------------------------------------
# (a) what reaches the optimiser

def make_mol(rng, name, n, prefix, hyd_prob):
    edges = gen.random_tree(rng, n) if n > 1 else []
    pos = gen.embed_graph(rng, n, edges) if n > 1 else rng.normal(size=(1, 3))
    pos = pos + rng.normal(size=3) * 4
    hyd = {j for j in range(1, n) if rng.random() < hyd_prob}
    return gen.make_molecule(name, gen.atom_names(n, prefix, hydrogens=hyd), edges, pos), hyd


def identify(rows, pos, tol=1e-9):
    """index of the atom each row designates (by coordinates), or None"""
    out = []
    for r in rows:
        d = np.linalg.norm(pos - r, axis=1)
        k = int(d.argmin())
        out.append(k if d[k] <= tol * (1 + np.abs(r).max()) else None)
    return out


def run_boundary(ctx, case):
    from gaddlemaps import Alignment
    rng = ctx.rng('boundary', case['batch'])
    received = []

    def make(real):
        def minimize_molecules(mol1_positions, mol2_positions, mol2_com, sigma_scale, n_steps, restriction,
                               mol2_bonds_info, displacement_module, sim_type):
            received.append((np.array(mol1_positions, float, copy=True), np.array(mol2_positions, float, copy=True),
                             [tuple(p) for p in restriction], sim_type))
            return mol2_positions
        return minimize_molecules
    # the stand-in for the optimiser sits either at the name the alignment calls, or one level below (the pure-python
    # engine), so that the library's own front of the engine - which warns that the compiled engine is missing - runs;
    # in that arrangement the caller may have warnings turned into errors, is refused with that warning, and calls again
    low = (case['batch'] % 2 == 1)
    ctx.hit('stand-in:below-the-engine-front' if low else 'stand-in:at-the-name-the-alignment-calls')
    with bus.installed('_minimize_molecules' if low else 'minimize_molecules', make):
        for it in range(50):
            mode = int(rng.integers(0, 3))
            if mode == 0:
                n1, n2 = int(rng.integers(1, 10)), int(rng.integers(10, 30))
            elif mode == 1:
                n1, n2 = int(rng.integers(10, 30)), int(rng.integers(2, 10))
            else:
                n1 = n2 = int(rng.integers(2, 15))
            start, hs = make_mol(rng, 'SP', n1, 'B', 0.3)
            end, he = make_mol(rng, 'SP', n2, 'C', 0.3)
            style = int(rng.integers(0, 4))
            if style == 0:
                pairs = []
            else:
                k = int(rng.integers(1, 12))
                pairs = [(int(rng.integers(0, n1)), int(rng.integers(0, n2))) for _ in range(k)]
                if style == 2 and pairs:
                    pairs += [pairs[0], pairs[-1]]
                if style == 3:
                    fixed_h = he if n1 < n2 else hs
                    for h in list(fixed_h)[:3]:
                        pairs.append((int(rng.integers(0, n1)), h) if n1 < n2 else (h, int(rng.integers(0, n2))))
            ignore_h = bool(rng.random() < 0.6)
            ali = Alignment(start, end)
            # the alignment is run one to three times on the same object; half of the time the caller hands over the very
            # same list object each time (as when restraints are prepared once and several alignments are tried)
            nrep = int(rng.integers(1, 4))
            same_list = bool(rng.random() < 0.5)
            pairs_obj = list(pairs)
            for rep in range(nrep):
                if rep:
                    ctx.hit('call:repeated-same-list-object' if same_list else 'call:repeated-fresh-list')
                sp0, ep0 = np.array(ali.start.atoms_positions), np.array(ali.end.atoms_positions)
                shift = ep0.mean(axis=0) - sp0.mean(axis=0)
                del received[:]
                w = {'n_start': n1, 'n_end': n2, 'pairs': pairs, 'ignore_hydrogens': ignore_h, 'hydrogens_start': sorted(hs), 'hydrogens_end': sorted(he),
                     'call_number': rep + 1, 'same_list_object_each_call': same_list}
                try:
                    caller = core.next_settings(ctx, ('default', 'warnings-as-errors')) if low else 'default'
                    w['caller_settings'] = caller
                    core.under(ctx, caller, ali.align_molecules, restrictions=pairs_obj if same_list else list(pairs), ignore_hydrogens=ignore_h)
                except Exception as exc:  # noqa
                    ctx.violation(f'alignment-raises:{type(exc).__name__}', str(exc)[:200], witness=w)
                    continue
                ctx.count('evaluations')
                if n2 == 1:
                    if received:
                        ctx.violation('optimiser-called-for-one-atom-end', 'minimize_molecules was called although the end molecule has one atom', witness=w)
                    continue
                if len(received) != 1:
                    ctx.violation('optimiser-calls', f'{len(received)} calls of the optimiser for one alignment', witness=w)
                    continue
                ctx.monitor('optimiser_boundary')
                m1, m2, restr, _ = received[0]
                start_mobile = n1 < n2
                spos = sp0 + shift
                fixed_pos, mobile_pos = (ep0, spos) if start_mobile else (spos, ep0)
                fixed_h = he if start_mobile else hs
                fid, mid = identify(m1, fixed_pos), identify(m2, mobile_pos)
                if None in fid or None in mid:
                    ctx.violation('optimiser-received-unknown-coordinates', 'a row handed to the optimiser is not the coordinate of any atom of the expected molecule', witness=w)
                    continue
                if mid != list(range(len(mobile_pos))):
                    ctx.violation('mobile-atoms-reordered-or-filtered', f'mobile rows designate atoms {mid[:10]}', witness=w)
                    continue
                want_fixed_rows = [k for k in range(len(fixed_pos)) if not (ignore_h and k in fixed_h)]
                if fid != want_fixed_rows:
                    ctx.violation('fixed-atoms-filtered-wrongly', f'fixed rows designate atoms {fid[:12]}, expected {want_fixed_rows[:12]}', witness=w)
                    continue
                # translate received pairs back to (start atom, end atom)
                got = []
                ok = True
                for a, b in restr:
                    if not (0 <= a < len(fid) and 0 <= b < len(mid)):
                        ctx.violation('restraint-index-out-of-range', f'pair {(a, b)} with {len(fid)} fixed rows and {len(mid)} mobile rows', witness=w)
                        ok = False
                        break
                    fa, mb = fid[a], mid[b]
                    got.append((mb, fa) if start_mobile else (fa, mb))
                if not ok:
                    continue
                want = [(i, j) for (i, j) in pairs if not (ignore_h and ((j in fixed_h) if start_mobile else (i in fixed_h)))]
                if got != want:
                    role = 'start-smaller' if start_mobile else 'start-larger-or-tie'
                    hyd = 'hydrogens-filtered' if ignore_h and fixed_h else 'no-filtering'
                    ctx.violation(f'restraints-designate-other-atoms:{role}:{hyd}',
                                  f'user pairs (start,end) {pairs[:8]} reached the optimiser as {got[:8]}, expected {want[:8]}', witness=w)
            ctx.hit('sizes:' + ('start-smaller' if n1 < n2 else 'start-larger' if n1 > n2 else 'tie'))
            ctx.hit('hydrogens:' + ('ignored' if ignore_h else 'kept'))
            if style == 3:
                ctx.hit('pairs:on-hydrogen')
            if style == 2:
                ctx.hit('pairs:duplicates')
            if want and (len(want) < len(pairs) or start_mobile):
                ctx.nontrivial(('boundary', n1, n2, ignore_h, style, len(pairs) - len(want)))
            if it == 0 and case['batch'] < 3:
                ctx.sample({'n_start': n1, 'n_end': n2, 'user_pairs': pairs, 'ignore_hydrogens': ignore_h,
                            'fixed_hydrogens': sorted(fixed_h), 'pairs_received_by_optimiser': restr,
                            'translated_back_to_(start,end)': got})


# ---------------------------------------------------------------------------
# (b) guessers

def check_pairs(pairs, sizes1, sizes2, off1=0, off2=0):
    """Post-conditions on a guessed list for molecules whose residues have the
    given sizes.  Returns a problem string or None."""
    n1, n2 = sum(sizes1), sum(sizes2)
    res_of1 = [r for r, s in enumerate(sizes1) for _ in range(s)]
    res_of2 = [r for r, s in enumerate(sizes2) for _ in range(s)]
    seen1, seen2 = set(), set()
    for (i, j) in pairs:
        i0, j0 = i - off1, j - off2
        if not (0 <= i0 < n1 and 0 <= j0 < n2):
            return f'index out of range: {(i, j)} (sizes {n1}, {n2}, offsets {off1}, {off2})'
        if res_of1[i0] != res_of2[j0]:
            return f'pair {(i, j)} joins residue {res_of1[i0]} with residue {res_of2[j0]}'
        seen1.add(i0)
        seen2.add(j0)
    if len(seen1) != n1 or len(seen2) != n2:
        return f'atoms without partner: {sorted(set(range(n1)) - seen1)[:5]} / {sorted(set(range(n2)) - seen2)[:5]}'
    for (i, j), (k, l) in zip(pairs, pairs[1:]):
        pass
    for (i, j) in pairs:
        for (k, l) in pairs:
            if i < k and j > l:
                return f'not order preserving: {(i, j)} and {(k, l)}'
    return None


def mem_residue(n, name='RES', resid=1, prefix='A'):
    pos = np.arange(3 * n, dtype=float).reshape(n, 3) * 0.1
    return gen.make_residues([f'{prefix}{i}' for i in range(n)], [name] * n, [resid] * n, pos)[0]


def run_splitter(ctx, case):
    import gaddlemaps
    n1 = case['n1']
    rng = ctx.rng('splitter', n1)
    r1 = mem_residue(n1)
    for n2 in range(1, 41):
        r2 = mem_residue(n2, prefix='C')
        off1, off2 = (0, 0) if n2 % 2 else (int(rng.integers(0, 500)), int(rng.integers(0, 500)))
        try:
            pairs = gaddlemaps.guess_residue_restrains(r1, r2, off1, off2) if (off1 or off2) else gaddlemaps.guess_residue_restrains(r1, r2)
        except Exception as exc:  # noqa
            ctx.violation(f'residue-guesser-raises:{type(exc).__name__}', f'sizes {n1}, {n2}: {exc}')
            continue
        ctx.monitor('residue_guesser')
        ctx.count('evaluations')
        bad = check_pairs(pairs, [n1], [n2], off1, off2)
        if bad:
            ctx.violation('residue-guess-wrong', f'sizes ({n1}, {n2}): {bad}', witness={'n1': n1, 'n2': n2, 'pairs': pairs[:30]})
        ctx.nontrivial(('splitter', n1, n2))
    ctx.extra.setdefault('splitter_rows_enumerated', 0)
    ctx.extra['splitter_rows_enumerated'] += 1
    if n1 == 3:
        ctx.sample({'guess_residue_restrains sizes (3, 7)': gaddlemaps.guess_residue_restrains(r1, mem_residue(7, prefix='C'))})


def multi_res_molecule(rng, sizes, resnames, name, prefix, top_resids=None):
    """top_resids: residue numbers written in the topology when they are not those of the coordinate residues (a
    hand-written topology with 'resnr 1' on every atom, say)."""
    n = sum(sizes)
    names = [f'{prefix}{i}' for i in range(n)]
    rn = [resnames[r] for r, s in enumerate(sizes) for _ in range(s)]
    rid = [r + 1 for r, s in enumerate(sizes) for _ in range(s)]
    edges = gen.chain(n)
    pos = gen.embed_graph(rng, n, edges)
    if top_resids is None:
        return gen.make_molecule(name, names, edges, pos, resnames=rn, resids=rid)
    from gaddlemaps.components import Molecule
    mt = gen.make_top(name, names, rn, top_resids, edges)
    return Molecule(mt, gen.make_residues(names, rn, rid, pos))


def run_protein(ctx, case):
    import gaddlemaps
    rng = ctx.rng('protein', case['batch'])
    pool = ['ALA', 'GLY', 'LYS', 'TRP', 'SER', 'VAL', 'HIS']
    for it in range(20):
        nres = int(rng.integers(2, 31))
        rn1 = [pool[int(x)] for x in rng.integers(0, len(pool), nres)]
        style = int(rng.integers(0, 3))
        rn2 = list(rn1) if style == 0 else [r + 'X' if rng.random() < 0.5 else r for r in rn1] if style == 1 else list(rn1)
        s1 = [int(x) for x in rng.integers(1, 13, nres)]
        s2 = [int(x) for x in rng.integers(1, 13, nres)]
        m1 = multi_res_molecule(rng, s1, rn1, 'PROT', 'B')
        m2 = multi_res_molecule(rng, s2, rn2, 'PROT', 'C')
        try:
            pairs = gaddlemaps.guess_protein_restrains(m1, m2)
        except Exception as exc:  # noqa
            ctx.violation(f'protein-guesser-raises:{type(exc).__name__}', f'{nres} residues, names {rn1[:5]} / {rn2[:5]}: {exc}')
            continue
        ctx.monitor('protein_guesser')
        ctx.count('evaluations')
        bad = check_pairs(pairs, s1, s2)
        if bad:
            ctx.violation('protein-guess-wrong', f'{nres} residues with sizes {s1[:8]} / {s2[:8]}: {bad}', witness={'sizes1': s1, 'sizes2': s2, 'pairs': pairs[:40]})
        ctx.nontrivial(('protein', nres, style, sum(s1) // 20, sum(s2) // 20))
        # mismatching number of residues: must be refused
        drop = int(rng.integers(1, nres)) if nres > 2 else 1
        m3 = multi_res_molecule(rng, s2[:nres - drop], rn2[:nres - drop], 'PROT', 'C')
        ctx.hit('guess:mismatching-residue-count')
        try:
            out = gaddlemaps.guess_protein_restrains(m1, m3)
            ctx.violation('protein-guess-accepts-different-residue-counts', f'{nres} vs {nres - drop} residues returned {len(out)} pairs')
        except Exception:  # noqa
            pass
        if it % 4 == 0:
            # homopolymers whose topologies write one residue number for every atom: the molecules still have nres and
            # nres - drop residues (their coordinate residues), and must be refused
            try:
                h1 = multi_res_molecule(rng, s1, ['PEG'] * nres, 'PROT', 'B', top_resids=[1] * sum(s1))
                h3 = multi_res_molecule(rng, s2[:nres - drop], ['PEG'] * (nres - drop), 'PROT', 'C', top_resids=[1] * sum(s2[:nres - drop]))
                ctx.hit('guess:mismatching-residue-count:topology-groups-differently')
                try:
                    out = gaddlemaps.guess_protein_restrains(h1, h3)
                    ctx.violation('protein-guess-accepts-different-residue-counts', f'homopolymers of {nres} and {nres - drop} residues '
                                  f'(topology residue number 1 everywhere) returned {len(out)} pairs')
                except Exception:  # noqa
                    pass
            except Exception as exc:  # noqa
                ctx.count('homopolymer_molecule_not_buildable:' + type(exc).__name__)
        if rng.random() < 0.5:
            try:
                out = gaddlemaps.guess_protein_restrains(m3, m1)
                ctx.violation('protein-guess-accepts-different-residue-counts', f'{nres - drop} vs {nres} residues returned {len(out)} pairs')
            except Exception:  # noqa
                pass


# ---------------------------------------------------------------------------
# (c) manager routing

def run_manager(ctx, case):
    from gaddlemaps import Manager, Alignment
    from gaddlemaps.components import Molecule
    i = case['i']
    rng = ctx.rng('manager', i)
    root = os.path.join(_tmp['dir'], f'w{os.getpid()}_{i}')
    long_chains = (i % 3 == 2)           # species of up to six residues: the manager guesses restraints for more than three
    w = world.make_world(rng, root, nspecies=int(rng.integers(2, 5)), ninst=(1, 4), small_prob=0.1,
                         multi_res_prob=0.7 if long_chains else 0.2, multi_res_max=6 if long_chains else 4,
                         coarsen=long_chains and i % 2 == 1)
    log = []
    real = Alignment.__dict__['align_molecules']

    def recorder(self, restrictions=None, deformation_types=None, ignore_hydrogens=True, auto_guess_protein_restrictions=True):
        log.append((self.start.name, restrictions, deformation_types, ignore_hydrogens))
    try:
        man = Manager.from_files(w['system_gro'], *[w['files'][n]['top_start'] for n in w['files']])
        order_sys = [n for n in w['files'] if n in w['end_for']]
        by_hand = None
        if len(order_sys) >= 2 and i % 3 == 1:
            # one species gets its end molecule attached by hand, and that molecule's own name is the name of ANOTHER
            # mapped species that comes earlier in the system (names of hand-attached end molecules are free)
            k = int(rng.integers(1, len(order_sys)))
            by_hand, other = order_sys[k], order_sys[int(rng.integers(0, k))]
            from .. import sysgen
            sysgen.write_species_itp(dict(w['end_species'][by_hand], name=other), w['files'][by_hand]['top_end'])
            ctx.hit('end-molecule:attached-by-hand-named-like-another-species')
        for n in w['end_for']:
            f = w['files'][n]
            if n == by_hand:
                man.molecule_correspondence[n].end = Molecule.from_files(f['gro_end'], f['top_end'])
            else:
                man.add_end_molecule(Molecule.from_files(f['gro_end'], f['top_end']))
        complete = sorted(w['end_for'])
        sizes = {n: (len(w['species'][n]['atoms']), len(w['end_species'][n]['atoms'])) for n in complete}
        # restraints prepared through the manager with the guesser switched on: guessed for species of more than three
        # residues (first index the start molecule, second the end molecule - what align_molecules is then given with
        # parse_restrictions=False), the caller's own for the others
        for given in (None, {}, {complete[0]: [(0, 0)]}):
            try:
                plain = man.parse_restrictions(given)
                guessed = man.parse_restrictions(given, guess_proteins=True)
            except Exception as exc:  # noqa
                ctx.violation(f'valid-options-rejected:{type(exc).__name__}', f'parse_restrictions({given}, guess_proteins=True): {exc}'[:300])
                break
            ctx.monitor('manager_guessed_restraints')
            ctx.count('evaluations')
            for n in complete:
                s1 = w['species'][n]['sizes']
                s2 = w['end_species'][n]['sizes']
                wit0 = {'species': n, 'start_residue_sizes': s1, 'end_residue_sizes': s2, 'given': given}
                if len(s1) > 3:
                    ctx.hit('manager-guess:more-than-three-residues')
                    if sum(s1) < sum(s2):
                        ctx.hit('manager-guess:start-smaller')
                    elif sum(s1) > sum(s2):
                        ctx.hit('manager-guess:start-larger')
                    bad = check_pairs([tuple(p) for p in (guessed.get(n) or [])], s1, s2)
                    if bad:
                        ctx.violation('manager-guessed-restraints-wrong', f'{n} (residues {s1} -> {s2}): {bad}',
                                      witness=dict(wit0, pairs=[tuple(int(x) for x in p) for p in (guessed.get(n) or [])][:40]))
                else:
                    ctx.hit('manager-guess:three-residues-or-fewer')
                    a, b = guessed.get(n), plain.get(n)
                    if (None if not a else [tuple(p) for p in a]) != (None if not b else [tuple(p) for p in b]):
                        ctx.violation('manager-guess-changes-restraints-of-short-species', f'{n}: {a} with the guesser on, {b} with it off', witness=wit0)
        with bus.patched(Alignment, 'align_molecules', recorder):
            for rep in range(12):
                del log[:]
                mode = ['valid', 'valid', 'valid-preparsed', 'unknown-species', 'malformed-pair', 'index-out-of-range',
                        'bad-deformation', 'bad-hydrogen-flag'][int(rng.integers(0, 8))]
                restr, defo, ign = {}, {}, {}
                # the three dictionaries are filled in independent random key orders
                for n in [complete[k] for k in rng.permutation(len(complete))]:
                    if rng.random() < 0.6:
                        k = int(rng.integers(0, 5))
                        restr[n] = [(int(rng.integers(0, sizes[n][0])), int(rng.integers(0, sizes[n][1]))) for _ in range(k)]
                    if rng.random() < 0.6:
                        defo[n] = [(0,), (0, 1), (0, 1, 2), (1,), (2, 0)][int(rng.integers(0, 5))]
                    if rng.random() < 0.6:
                        ign[n] = bool(rng.random() < 0.5)
                defo = {n: defo[n] for n in [list(defo)[k] for k in rng.permutation(len(defo))]}
                ign = {n: ign[n] for n in [list(ign)[k] for k in rng.permutation(len(ign))]}
                preparsed = mode == 'valid-preparsed'
                if preparsed:
                    # restraints already validated by the caller (0-based), listed in the caller's own order for all or
                    # some of the species: only the listed species are aligned, each with its own options
                    keep = [complete[k] for k in rng.permutation(len(complete))][:int(rng.integers(1, len(complete) + 1))]
                    restr = {n: restr.get(n, []) for n in keep}
                    mode = 'valid'
                victim = complete[int(rng.integers(0, len(complete)))]
                others = [n for n in w['files'] if n not in complete]
                if mode == 'unknown-species':
                    bad_name = others[0] if others and rng.random() < 0.5 else 'NOSUCH'
                    # a plausible value under the unknown name in one of the three dictionaries
                    which = int(rng.integers(0, 3))
                    if which == 0:
                        restr[bad_name] = [(0, 0)]
                    elif which == 1:
                        defo[bad_name] = (0, 1)
                    else:
                        ign[bad_name] = True
                elif mode == 'malformed-pair':
                    restr[victim] = [[(0, 0), (1,)], [(0, 0, 0)], [5], [(0, 0), 3], [(0, 0), (0, 1, 2)], [(0, 0), (0, 0), (0, 0, 0, 0)]][int(rng.integers(0, 6))]
                elif mode == 'index-out-of-range':
                    restr[victim] = [(sizes[victim][0] + int(rng.integers(0, 5)), 0)] if rng.random() < 0.5 else [(0, sizes[victim][1] + int(rng.integers(0, 5)))]
                elif mode == 'bad-deformation':
                    defo[victim] = [(0, 1, 2, 0), 5, (0, 1, 2, 1, 0)][int(rng.integers(0, 3))]
                elif mode == 'bad-hydrogen-flag':
                    ign[victim] = ['yes', 1, 0.5, 'False'][int(rng.integers(0, 4))]
                kwargs = {}
                if restr or rng.random() < 0.5:
                    kwargs['restrictions'] = restr
                if preparsed:
                    kwargs['parse_restrictions'] = False
                if defo or rng.random() < 0.5:
                    kwargs['deformation_types'] = defo
                if ign or rng.random() < 0.5:
                    kwargs['ignore_hydrogens'] = ign
                wit = {'complete_species': complete, 'all_species': list(w['files']), 'mode': mode, 'parse_restrictions': not preparsed,
                       'restrictions': restr, 'deformation_types': defo, 'ignore_hydrogens': ign}
                ctx.count('evaluations')
                try:
                    man.align_molecules(**kwargs)
                    raised = None
                except Exception as exc:  # noqa
                    raised = exc
                if mode == 'valid':
                    ctx.monitor('manager_routing')
                    if raised is not None:
                        ctx.violation(f'valid-options-rejected:{type(raised).__name__}', str(raised)[:200], witness=wit)
                        continue
                    names = [e[0] for e in log]
                    if sorted(names) != (sorted(restr) if preparsed else complete):
                        ctx.violation('alignments-started-for-wrong-species', f'alignments started for {names}, complete species {complete}'
                                      + (f', pre-parsed restraints for {sorted(restr)}' if preparsed else ''), witness=wit)
                        continue
                    if preparsed:
                        ctx.hit('routing:preparsed-own-order' if list(restr) != [n for n in complete if n in restr] or len(restr) < len(complete)
                                else 'routing:preparsed-system-order')
                    for name, r, d, g in log:
                        want_r = restr.get(name) or None
                        want_d = defo.get(name) or None
                        want_g = ign.get(name, True)
                        got_r = None if not r else [tuple(p) for p in r]
                        if got_r != (None if want_r is None else [tuple(p) for p in want_r]):
                            ctx.violation('restraints-routed-to-wrong-species-or-altered', f'{name} received {r}, given {want_r}', witness=wit)
                        if (None if not d else tuple(d)) != (None if want_d is None else tuple(want_d)):
                            ctx.violation('deformation-types-routed-wrongly', f'{name} received {d}, given {want_d}', witness=wit)
                        if g is not want_g and g != want_g:
                            ctx.violation('hydrogen-flag-routed-wrongly', f'{name} received {g}, given {want_g}', witness=wit)
                    # the same option objects handed over a second time reach the alignments exactly as the first time
                    if rng.random() < 0.5:
                        first_log = [(e[0], None if not e[1] else [tuple(p) for p in e[1]], e[2], e[3]) for e in log]
                        del log[:]
                        try:
                            man.align_molecules(**kwargs)
                        except Exception as exc:  # noqa
                            ctx.violation(f'valid-options-rejected-on-second-use:{type(exc).__name__}', str(exc)[:200], witness=wit)
                            continue
                        second_log = [(e[0], None if not e[1] else [tuple(p) for p in e[1]], e[2], e[3]) for e in log]
                        ctx.hit('routing:same-option-objects-used-twice')
                        if second_log != first_log:
                            ctx.violation('options-reach-alignments-differently-on-second-use',
                                          f'first {first_log[:3]} second {second_log[:3]}', witness=wit)
                    if any(len(dct) not in (0, len(complete)) for dct in (restr, defo, ign)):
                        ctx.hit('routing:partial-dicts')
                    ctx.nontrivial(('routing', len(complete), tuple(sorted(restr)), tuple(sorted(defo)), tuple(sorted(ign))))
                else:
                    ctx.monitor('manager_rejection')
                    ctx.hit('reject:' + mode)
                    if raised is None:
                        ctx.violation(f'bad-options-accepted:{mode}', f'no error for {mode}', witness=wit)
                    elif log:
                        ctx.violation(f'bad-options-rejected-after-alignments-started:{mode}',
                                      f'{len(log)} alignments had already been started when {type(raised).__name__} was raised', witness=wit)
                    ctx.nontrivial(('reject', mode, len(complete)))
        if i == 0:
            ctx.sample({'manager_case': {'complete_species': complete, 'last_options': wit, 'alignments_logged': [(e[0], e[1], e[2], e[3]) for e in log]}})
    finally:
        shutil.rmtree(root, ignore_errors=True)


def run_case(ctx, case):
    {'boundary': run_boundary, 'splitter': run_splitter, 'protein': run_protein, 'manager': run_manager}[case['kind']](ctx, case)


def finalize(ctx):
    ctx.extra['splitter_enumerated_completely'] = ctx.extra.get('splitter_rows_enumerated', 0) == 40
    ctx.extra['exhaustive'] = False
    ctx.note('exhaustive only for guess_residue_restrains over residue sizes 1..40 x 1..40')
