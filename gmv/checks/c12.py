"""
C12 - the coordinate-file view tiles the file into residues with stable random
access.

Deciding monitor: history monitor.  One SystemGro object per generated file and
one reference list (the file parsed by the independent ref.ref_gro_read and cut
where residue number or name changes); random access histories (index,
negative index, slices with steps, several live iterators advanced in any
order, len, composition); every result is compared with the reference at once.
"""
import os
import shutil
import tempfile
from collections import Counter

import numpy as np

from .. import carrier, core, cover, gen, grospec, ref

LEVEL = 'exploration'
JOBS = {'quick': 2, 'thorough': 16}
REQUIRED_MONITORS = ('tiling_vs_reference', 'random_access_vs_reference', 'iterator_vs_reference')
REQUIRED_CLASSES = ('layout:blocks', 'layout:alternating', 'layout:same-name-different-size',
                    'layout:same-name-size-different-atoms', 'layout:single-atom', 'layout:giant', 'layout:digit-names',
                    'layout:resid-wrap', 'layout:constant-name-increasing-number', 'vel:yes', 'vel:no', 'vel:some-atoms-at-rest', 'box:triclinic-lower', 'box:triclinic-general', 'values:full-width-numbers', 'atom-numbers:restarts', 'atom-numbers:arbitrary', 'atom-numbers:offset',
                    'op:index', 'op:negative-index', 'op:slice', 'op:slice-negative-step', 'op:next', 'op:out-of-range',
                    'object:fresh-never-walked', 'object:walked-completely-before', 'object:view-of-a-system-with-topology',
                    'carrier:handle', 'carrier:handle-relative-then-chdir', 'carrier:relative-path', 'settings:warnings-as-errors')
RULE = ('files: residue layout class x residue sizes 1..12 x 1..400 residues (thorough: up to 5000) x velocities; access '
        'histories of up to 200 operations. Non-trivial: at least 3 residues and at least 2 residue kinds or sizes. '
        'distinct = distinct (layout, velocities, residue-count bucket, history signature)')
ASSUMPTIONS = [
    'a new residue starts exactly where (residue number, residue name) changes between consecutive records; '
    'consecutive records with equal number and name are one residue by definition',
    'files are complete and well formed (written by an independent writer, not by the library)',
    'values compared bit for bit with an independent parse of the same text',
]
_cov = cover.Coverage()
_tmp = {}


def setup(ctx):
    from gaddlemaps.components import SystemGro
    from gaddlemaps.parsers import GroFile
    for name in ('__iter__', '__getitem__', '__len__', '_parse_gro', '_add_residue_init', '_molecules_ordered_all_gen'):
        _cov.watch_attr(SystemGro, name, f'SystemGro.{name}')
    _cov.watch_attr(GroFile, 'seek_atom', 'GroFile.seek_atom')
    _cov.start()
    _tmp['dir'] = tempfile.mkdtemp(prefix='gmv_c12_')


def teardown(ctx):
    _cov.stop()
    ctx.take_coverage(_cov)
    shutil.rmtree(_tmp['dir'], ignore_errors=True)


LAYOUTS = ['blocks', 'alternating', 'random', 'same-name-different-size', 'same-name-size-different-atoms',
           'single-atom', 'giant', 'digit-names', 'resid-wrap', 'constant-name-increasing-number', 'one-residue']


def cases(ctx):
    n = 220 if ctx.tier == 'quick' else 20000
    for i in range(n):
        yield {'i': i, 'layout': LAYOUTS[i % len(LAYOUTS)]}


_rest = [0]


def gen_file(rng, layout, nres_max):
    """List of records (resid, resname, name, atomid, xyz, vel|None)."""
    vel = rng.random() < 0.4
    rest = _rest
    nres = int(rng.integers(1, nres_max + 1))
    kinds = []
    nk = int(rng.integers(2, 6))
    for k in range(nk):
        size = int(rng.integers(1, 13))
        kinds.append((f'K{k}', [f'{"CNOH"[a % 4]}{a}' for a in range(size)]))
    if layout == 'same-name-different-size':
        kinds = [('SAME', [f'A{a}' for a in range(s)]) for s in sorted({int(x) for x in rng.integers(1, 13, 4)} | {1, 2})]
    elif layout == 'same-name-size-different-atoms':
        s = int(rng.integers(1, 6))
        kinds = [('SAME', [f'{p}{a}' for a in range(s)]) for p in 'ABC']
    elif layout == 'single-atom':
        kinds = [('W', ['OW']), ('NA', ['NA']), ('CL', ['CL'])]
    elif layout == 'giant':
        kinds = [('BIG', [f'X{a}' for a in range(int(rng.integers(100, 600)))])]
        nres = int(rng.integers(1, 4))
    elif layout == 'digit-names':
        kinds = [('2AB', ['A', 'B']), ('AB', ['A', 'B']), ('12AB', ['A', 'B']), ('1', ['A']), ('11', ['A']),
                 ('2AB', ['A', 'B', 'C'])]
    elif layout == 'one-residue':
        nres = 1
    seq = []
    if layout == 'blocks':
        while len(seq) < nres:
            seq += [int(rng.integers(0, len(kinds)))] * int(rng.integers(1, 40))
    elif layout == 'alternating':
        a, b = 0, 1 % len(kinds)
        seq = [(a, b)[i % 2] for i in range(nres)]
    else:
        seq = [int(x) for x in rng.integers(0, len(kinds), nres)]
    seq = seq[:nres]
    records = []
    atomid = 1
    # the atom-number column: the running count from 1 (usual), a running count that starts elsewhere, numbers that
    # restart at 1 now and then (concatenated chains / fragments), or arbitrary numbers
    idmode = ['running', 'running', 'offset', 'restarts', 'arbitrary'][int(rng.integers(0, 5))]
    _rest.append(idmode)
    if idmode == 'offset':
        atomid = int(rng.integers(2, 90000))
    if layout == 'resid-wrap':
        resid = 99999 - int(rng.integers(0, min(nres, 30) + 1))
    elif layout == 'digit-names':
        resid = int(rng.choice([1, 11, 12, 2]))
    else:
        resid = int(rng.integers(1, 50))
    for r, k in enumerate(seq):
        name, atoms = kinds[k]
        if layout == 'constant-name-increasing-number':
            name, atoms = kinds[0]
        for a in atoms:
            xyz = tuple(float(np.round(x, 3)) for x in rng.uniform(-9, 99, 3))
            v = tuple(float(np.round(x, 4)) for x in rng.normal(size=3)) if vel else None
            if rng.random() < 0.04:
                # numbers that fill their whole column (no blank before them): 1000.000 .. 9999.999, -999.999, 100.0000 ..
                xyz = tuple(float(np.round(x, 3)) for x in rng.choice([1, -0.1], 3) * rng.uniform(1000, 9999.999, 3))
                if vel:
                    v = tuple(float(np.round(x, 4)) for x in rng.choice([1, -0.1], 3) * rng.uniform(100, 999.9999, 3))
                _rest.append('full-width-numbers')
            if vel and rng.random() < 0.08:
                v = (0.0, 0.0, 0.0)           # an atom at rest (frozen group, wall, velocities not generated yet)
                rest[0] += 1
            records.append((resid % 100000, name, a, (atomid if idmode != 'arbitrary' else int(rng.integers(0, 100000))) % 100000, xyz, v))
            atomid += 1
        if idmode == 'restarts' and rng.random() < 0.15:
            atomid = 1
        if layout == 'digit-names':
            # numbers and names chosen so that number||name concatenations can collide
            resid = int(rng.choice([1, 11, 12, 2, 112, 21]))
        elif layout in ('same-name-size-different-atoms',) and rng.random() < 0.3:
            pass                                   # same number and name continue: one residue by definition
        else:
            resid += 1
    return records, vel


def reference_residues(records):
    out, cur, key = [], [], None
    for r in records:
        k = (r[0], r[1])
        if key is not None and k != key:
            out.append(cur)
            cur = []
        key = k
        cur.append(r)
    out.append(cur)
    return out


def residue_matches(res, want):
    if len(res) != len(want):
        return f'{len(res)} atoms instead of {len(want)}'
    for at, w in zip(res, want):
        got = (at.resid, at.resname, at.name, at.atomid, tuple(float(x) for x in at.position),
               None if at.velocity is None else tuple(float(x) for x in at.velocity))
        if got != w:
            return f'atom {got} instead of {w}'
    return None


def _decoy():
    """A complete coordinate file of another system; it waits, under the same bare name as the file of the case, in the
    directory the process moves to after that file was opened by a relative name."""
    p = os.path.join(_tmp['dir'], f'decoy{os.getpid()}.gro')
    if not os.path.exists(p):
        gen.write_gro(p, 'decoy: another system', [(1, 'DEC', 'D1', 1, (0.5, 0.5, 0.5), None), (2, 'DEC', 'D1', 2, (1.5, 0.5, 0.5), None)],
                      np.array([2.0, 2.0, 2.0]))
    return p


def run_case(ctx, case):
    import contextlib
    with contextlib.ExitStack() as stack:
        _run_case(ctx, case, stack)


def _run_case(ctx, case, stack):
    from gaddlemaps.components import SystemGro
    kind = carrier.next_kind(ctx)

    def given():
        # the file as it is handed to the library this time (a path, a relative name, an open handle: see carrier.py);
        # whatever was handed out before stays as it is until the case ends
        return stack.enter_context(carrier.carried(path, kind, decoy=_decoy()))
    i, layout = case['i'], case['layout']
    rng = ctx.rng('file', i)
    nres_max = 400 if (ctx.tier == 'quick' or i % 20) else 5000
    if ctx.tier == 'quick' and i % 3:
        nres_max = 60
    records, vel = gen_file(rng, layout, nres_max)
    path = os.path.join(_tmp['dir'], f's{os.getpid()}.gro')
    box = rng.uniform(3, 9, 3)
    bcls = ['vector', 'triclinic-lower', 'triclinic-general'][i % 3]
    if bcls != 'vector':
        # nine numbers on the box line: the GROMACS shape (v1(y) = v1(z) = v2(z) = 0), or all six off-diagonal terms
        # present and pairwise different
        m = np.diag(box)
        off = np.round(rng.uniform(0.1, 2.0, 6) * rng.choice([-1, 1], 6), 5)
        m[1, 0], m[2, 0], m[2, 1] = off[0], off[1], off[2]
        if bcls == 'triclinic-general':
            m[0, 1], m[0, 2], m[1, 2] = off[3], off[4], off[5]
        box = m
    ctx.hit('box:' + bcls)
    title = 'generated system %d' % i
    gen.write_gro(path, title, records, box)
    truth = ref.ref_gro_read(path)
    want = reference_residues(truth['records'])
    ctx.count('evaluations')
    ctx.hit('layout:' + layout)
    ctx.hit('vel:' + ('yes' if vel else 'no'))
    if _rest[0]:
        ctx.hit('vel:some-atoms-at-rest')
        _rest[0] = 0
    while len(_rest) > 1:
        flag = _rest.pop()
        ctx.hit('values:full-width-numbers' if flag == 'full-width-numbers' else 'atom-numbers:' + flag)
    w = {'layout': layout, 'n_residues': len(want), 'file_head': open(path).read()[:900], 'carrier': kind}
    try:
        s = SystemGro(given())
        got_iter = list(s)
    except Exception as exc:  # noqa
        ctx.violation(f'systemgro-raises:{type(exc).__name__}:{layout}', str(exc)[:200], witness=w)
        return
    ctx.monitor('tiling_vs_reference')
    # 1. tiling
    flat = [a for r in got_iter for a in r]
    if len(flat) != len(truth['records']):
        ctx.violation('tiling-atom-count', f'{len(flat)} atoms iterated, {len(truth["records"])} in the file', witness=w)
        return
    if len(got_iter) != len(want) or len(s) != len(want):
        mech = 'residue-boundaries-wrong:digit-leading-names' if layout == 'digit-names' else 'residue-boundaries-wrong'
        ctx.violation(mech, f'{len(got_iter)} residues iterated (len()={len(s)}), {len(want)} runs of (number, name) in the file', witness=w)
        return
    for k, (r, wnt) in enumerate(zip(got_iter, want)):
        bad = residue_matches(r, wnt)
        if bad:
            ctx.violation('tiling-residue-differs', f'residue {k}: {bad}', witness=w)
            return
    if s.n_atoms != len(truth['records']):
        ctx.violation('n_atoms-wrong', f'{s.n_atoms} != {len(truth["records"])}', witness=w)
    if np.abs(np.asarray(s.box_matrix) - truth['box']).max() > 0:
        ctx.violation('box-wrong', f'{np.asarray(s.box_matrix).tolist()}', witness=w)
    if s.comment_line.rstrip('\n') != title:
        ctx.violation('title-wrong', repr(s.comment_line), witness=w)
    comp = Counter(r[0][1] for r in want)
    if dict(s.composition) != dict(comp):
        ctx.violation('composition-wrong', f'{dict(s.composition)} != {dict(comp)}', witness=w)
    n = len(want)
    kinds = {(r[0][1], len(r)) for r in want}
    # 2. access history: on the object that was just iterated completely, or on a fresh object that has never been
    #    walked to the end (lazily built state of the object must not matter)
    if i % 4 == 3:
        # the view that a System keeps of its coordinate file, after the System recognised a topology in it (the
        # System's own bookkeeping of which residues are taken must not reach into the view)
        del s
        from gaddlemaps.components import System
        try:
            system = System(given())
            s = system.system_gro
        except Exception as exc:  # noqa
            ctx.violation(f'systemgro-raises:{type(exc).__name__}:{layout}', str(exc)[:200], witness=w)
            return
        first = want[int(rng.integers(0, len(want)))]
        itp = os.path.join(_tmp['dir'], f's{os.getpid()}.itp')
        names = [r[2] for r in first]
        gen.write_itp(itp, 'MOLX', gen.simple_itp_atoms(names, [first[0][1]] * len(names), [1] * len(names)),
                      [('bonds', [(k, k + 1) for k in range(1, len(names))])])
        try:
            system.add_ftop(itp)
            taken = len(system)
            if taken:
                system[0]
                system[-1]
            ctx.hit('object:view-of-a-system-with-topology' if taken else 'object:view-of-a-system')
        except Exception as exc:  # noqa
            ctx.count('system_topology_refused:' + type(exc).__name__)
            ctx.hit('object:view-of-a-system')
        w = dict(w, through='System(path).system_gro after add_ftop for residue kind %r' % (first[0][1],))
    elif i % 2:
        del s
        try:
            s = SystemGro(given())
        except Exception as exc:  # noqa
            ctx.violation(f'systemgro-raises:{type(exc).__name__}:{layout}', str(exc)[:200], witness=w)
            return
        ctx.hit('object:fresh-never-walked')
    else:
        ctx.hit('object:walked-completely-before')
    iters = []
    history = []
    sig = Counter()
    nops = int(rng.integers(20, 201 if ctx.tier == 'thorough' else 81))
    # the caller may run with warnings turned into errors: the unchanged view answers every access without a word
    caller = core.next_settings(ctx, ('default', 'warnings-as-errors'))
    w = dict(w, caller_settings=caller)
    stack.enter_context(core.settings(caller))
    for step in range(nops):
        op = ['index', 'negative-index', 'slice', 'next', 'new-iter', 'len', 'out-of-range'][int(rng.choice(7, p=[.25, .15, .2, .25, .05, .05, .05]))]
        try:
            if op == 'index':
                k = int(rng.integers(0, n))
                history.append(('index', k))
                bad = residue_matches(s[k], want[k])
                ctx.monitor('random_access_vs_reference')
            elif op == 'negative-index':
                k = -int(rng.integers(1, n + 1))
                history.append(('index', k))
                bad = residue_matches(s[k], want[k])
                ctx.monitor('random_access_vs_reference')
            elif op == 'slice':
                a = None if rng.random() < 0.2 else int(rng.integers(-n - 2, n + 3))
                b = None if rng.random() < 0.2 else int(rng.integers(-n - 2, n + 3))
                c = None if rng.random() < 0.4 else int(rng.choice([1, 2, 3, 7, -1, -2, -5]))
                history.append(('slice', a, b, c))
                got = s[a:b:c]
                wnt = want[a:b:c]
                if len(wnt) > 300:
                    # keep the cost bounded: compare a window
                    got, wnt = got[:150] + got[-150:], wnt[:150] + wnt[-150:]
                bad = None if len(got) == len(wnt) else f'slice length {len(got)} != {len(wnt)}'
                for g, x in zip(got, wnt):
                    bad = bad or residue_matches(g, x)
                ctx.monitor('random_access_vs_reference')
                if c is not None and c < 0:
                    ctx.hit('op:slice-negative-step')
            elif op == 'new-iter' or (op == 'next' and not iters):
                iters.append([iter(s), 0])
                history.append(('new-iter',))
                bad = None
                op = 'new-iter'
            elif op == 'next':
                j = int(rng.integers(0, len(iters)))
                it, pos = iters[j]
                history.append(('next', j))
                if pos >= n:
                    try:
                        next(it)
                        bad = 'iterator yields past the end'
                    except StopIteration:
                        bad = None
                else:
                    bad = residue_matches(next(it), want[pos])
                    iters[j][1] += 1
                ctx.monitor('iterator_vs_reference')
            elif op == 'len':
                history.append(('len',))
                bad = None if len(s) == n else f'len {len(s)} != {n}'
            else:
                k = int(rng.choice([n, n + 3, -n - 1, -n - 7]))
                history.append(('index', k))
                try:
                    s[k]
                    bad = f'index {k} out of range returned a residue (n={n})'
                except IndexError:
                    bad = None
        except Exception as exc:  # noqa
            bad = f'{type(exc).__name__}: {exc}'
        ctx.hit('op:' + op)
        sig[op] += 1
        if bad:
            ctx.violation(f'random-access-differs:{op}', f'after {len(history)} operations, {history[-1]}: {bad}',
                          witness=dict(w, history=history[-30:]))
            break
    if n >= 3 and len(kinds) >= 2:
        ctx.nontrivial((layout, vel, min(n // 50, 8), tuple(sorted(sig.items()))))
    if i < 3:
        ctx.sample({'layout': layout, 'residues': n, 'kinds': sorted(kinds)[:6], 'history_head': history[:12]})
    del s
