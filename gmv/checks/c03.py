"""
C03 - the exchange map is local and shape-preserving under deformation.

Deciding monitors: (i) the shape part of the emmon contract on every
ExchangeMap call (distance of every mapped atom to its anchor = s x the
construction distance; atoms sharing an anchor keep mutual distances x s), also
on every call made by Manager.extrapolate_system in an embedded run; (ii)
locality by differential runs: each reference atom is displaced in turn and the
mapped atoms whose anchor frame {anchor, its two lowest-numbered bonded atoms}
does not contain it must not move (1e-12).
"""
import os
import shutil
import tempfile

import numpy as np

from .. import cover, emmon, gen, ref, world

LEVEL = 'exploration'
JOBS = {'quick': 4, 'thorough': 16}
REQUIRED_MONITORS = ('em_shape_contract', 'locality', 'retained_results')
REQUIRED_CLASSES = ('reference:through-the-parsers', 'reference:two-atoms-bond-length-changed', 'reference:one-atom', 'scale:zero', 'scale:two', 'deformation:none-or-one-ulp', 'deformation:small', 'deformation:large', 'displaced:anchor', 'displaced:frame-neighbour',
                    'displaced:other', 'displacement:small', 'displacement:far', 'embedded:extrapolate',
                    'geometry:generic', 'geometry:partial-collinear', 'geometry:linear-z', 'argument:same-object-mutated-in-place',
                    'argument:fresh-copy', 'map:made-by-an-alignment-whose-molecules-then-change')
RULE = ('(reference, target, s) as in C01 x K deformed conformations (independent Gaussian displacement of every atom, sigma '
        '1%..100% of a bond length) with the shape contract on every call; locality: every reference atom displaced in turn '
        '(small / large / to a far-away point). Non-trivial: the conformation differs from the construction one and the map '
        'has >= 2 anchors. distinct = distinct (n, geometry, sigma bucket, s class, displaced-atom role)')
ASSUMPTIONS = [
    'reference of >= 3 atoms with at least one atom with two bonds',
    'conformations that put an anchor frame in the ill-conditioned band (1e-12 < sin < 1e-2) are rejected by the generator and counted',
    'target atoms with two equally near anchors are skipped and counted',
    'tolerance 1e-9 (shape), 1e-12 nm (locality)',
]
_cov = cover.Coverage()
_tmp = {}


def setup(ctx):
    from gaddlemaps import _exchage_map
    EM = _exchage_map.ExchangeMap
    for name in ('_calculate_refsystems_general', '_restore_point', '_restore_molecule', '__call__'):
        _cov.watch_attr(EM, name, f'ExchangeMap.{name}')
    _cov.start()
    emmon.install_contract(ctx, law=True)
    _tmp['dir'] = tempfile.mkdtemp(prefix='gmv_c03_')


def teardown(ctx):
    _cov.stop()
    ctx.take_coverage(_cov)
    shutil.rmtree(_tmp['dir'], ignore_errors=True)


def cases(ctx):
    n = 500 if ctx.tier == 'quick' else 50000
    for b in range(n // 10):
        yield {'kind': 'gen', 'batch': b}
    for i in range(3 if ctx.tier == 'quick' else 120):
        yield {'kind': 'emb', 'i': i}


def small_reference(ctx, rng, case, K):
    """References of two atoms (and of one): the anchor is the first atom; in a new conformation the two atoms are
    somewhere else AND at another distance from each other.  Every mapped atom still lies at s times its construction
    distance from the anchor (the shape contract on the call judges that)."""
    from gaddlemaps import ExchangeMap
    n = 2 if case['batch'] % 4 else 1
    edges = [(0, 1)] if n == 2 else []
    pos = rng.normal(size=(n, 3))
    if n == 2:
        pos[1] = pos[0] + rng.normal(size=3) * 0.2 + 0.1
    tpos = emmon.gen_target(rng, pos, emmon.PLACEMENT[int(rng.integers(0, 4))], mmax=30)
    s = emmon.gen_scale(rng, emmon.SCALES[int(rng.integers(0, 3))])
    refm, tgtm = emmon.build_pair(rng, edges, pos, tpos)
    np.random.seed(int(rng.integers(0, 2 ** 31 - 1)))
    try:
        emap = ExchangeMap(refm, tgtm, s)
        for c in range(K):
            conf = pos @ gen.random_rotation(rng).T + rng.normal(size=3) * 3
            if n == 2:
                u = conf[1] - conf[0]
                conf[1] = conf[0] + u * float(rng.choice([0.5, 0.8, 1.3, 2.5]))      # bond compressed / stretched
            emap(emmon.with_positions(refm, conf))                                      # shape contract fires here
            ctx.count('evaluations')
            ctx.hit('reference:two-atoms-bond-length-changed' if n == 2 else 'reference:one-atom')
    except Exception as exc:  # noqa
        ctx.violation(f'map-raises:{type(exc).__name__}', str(exc)[:200], witness={'ref': pos, 'target': tpos, 's': s})


def run_gen(ctx, case):
    from gaddlemaps import ExchangeMap
    rng = ctx.rng('gen', case['batch'])
    K = 5 if ctx.tier == 'quick' else 10
    for it in range(10):
        if it == 3:
            small_reference(ctx, rng, case, K)
            continue
        geometry = emmon.GEOMETRY[int(rng.integers(0, len(emmon.GEOMETRY)))]
        edges, pos, info = emmon.gen_reference(rng, geometry, nmax=25)
        n = len(pos)
        if not ref.anchors_of(n, edges) or not emmon.frames_ok(n, edges, pos):
            ctx.count('rejected_reference')
            continue
        tpos = emmon.gen_target(rng, pos, emmon.PLACEMENT[int(rng.integers(0, 4))], mmax=40)
        scls = emmon.SCALES[int(rng.integers(0, 3))]
        s = emmon.gen_scale(rng, scls)
        if it == 7:
            # the end of the range: every mapped atom on its anchor (s = 0), or twice as far (s = 2)
            s = [0.0, 2.0][case['batch'] % 2]
            scls = 'end-of-range'
            ctx.hit('scale:zero' if s == 0.0 else 'scale:two')
        through_files = it in (2, 6)
        refm, tgtm = emmon.build_pair(rng, edges, pos, tpos, multi_res=(it % 2 == 1), files=through_files)
        if through_files:
            pos = np.array(refm.atoms_positions)          # the three-decimal coordinates of the file
            if gen.min_pair_distance(pos) < 1e-3 or not emmon.frames_ok(n, edges, pos):
                ctx.count('rejected_reference')
                continue
            ctx.hit('reference:through-the-parsers')
        if it in (4, 8):
            # the map made for the pair held by an Alignment; the user carries on with the alignment's molecules (moves,
            # turns and reshapes them) before the map is used for the first time: the law is the one of the moment the
            # map was made
            from gaddlemaps import Alignment
            ali = Alignment(refm, tgtm)
            ali.init_exchange_map(s)
            emap = ali.exchange_map
            ali.end.move(rng.normal(size=3) * 2)
            ali.start.rotate(gen.random_rotation(rng))
            if it == 8:
                ali.end.atoms_positions = np.array(ali.end.atoms_positions) + rng.normal(size=(len(tpos), 3)) * 0.3
                ali.start.atoms_positions = np.array(ali.start.atoms_positions) + rng.normal(size=(n, 3)) * 0.05
            ctx.hit('map:made-by-an-alignment-whose-molecules-then-change')
        else:
            emap = ExchangeMap(refm, tgtm, s)
        model = emap.__dict__['_gmv_model']
        ctx.hit('geometry:' + info['geometry'])
        bond = float(np.mean([np.linalg.norm(pos[a] - pos[b]) for a, b in edges]))
        persistent = refm.copy()        # one argument object whose conformation is changed in place between calls

        def argument(conf_, k_):
            if k_ % 2:
                persistent.atoms_positions = np.array(conf_, float)
                ctx.hit('argument:same-object-mutated-in-place')
                return persistent
            ctx.hit('argument:fresh-copy')
            return emmon.with_positions(refm, conf_)
        kept = []
        for c in range(K):
            frac = 10.0 ** rng.uniform(-2, 0)
            conf = pos + rng.normal(size=pos.shape) * bond * frac
            if c == 0 and it % 3 == 0:
                # the "new" conformation is, bit for bit, the construction conformation (zero displacement), or differs
                # from it in a single coordinate of a single atom by one unit in the last place
                conf = pos.copy()
                frac = 0.0
                if it % 2:
                    j0 = int(rng.integers(0, n))
                    conf[j0, int(rng.integers(0, 3))] = np.nextafter(conf[j0, 0], np.inf)
                ctx.hit('deformation:none-or-one-ulp')
            elif rng.random() < 0.3:
                R, t = gen.random_rotation(rng), rng.normal(size=3) * 10
                conf = conf @ R.T + t
            if not emmon.frames_ok(n, edges, conf) or gen.min_pair_distance(conf) < 1e-4:
                ctx.count('rejected_conformation_illconditioned')
                continue
            w = {'edges': edges, 'ref': pos, 'target': tpos, 's': s, 'conformation': conf}
            if c == 1:
                emmon.disturb(ctx, emap, tgtm, refm)
            # the molecules returned for earlier conformations are kept and looked at again: their atoms must stay where
            # the shape law puts them for THEIR conformation, whatever is mapped afterwards
            for (res_old, snap_old, c_old) in kept:
                ctx.monitor('retained_results')
                if not np.array_equal(np.array(res_old.atoms_positions), snap_old):
                    ctx.violation('not-local:earlier-result-follows-later-calls',
                                  f'the molecule mapped from conformation {c_old} changed after other conformations were mapped '
                                  f'(max shift {np.abs(np.array(res_old.atoms_positions) - snap_old).max():.3g})', witness=w)
                    kept.clear()
                    break
            try:
                res0 = emap(argument(conf, c))                              # shape contract fires here
                out0 = np.array(res0.atoms_positions)
            except Exception as exc:  # noqa
                ctx.violation(f'map-raises:{type(exc).__name__}', str(exc)[:200], witness=w)
                continue
            kept.append((res0, out0.copy(), c))
            ctx.count('evaluations')
            ctx.hit('deformation:' + ('small' if frac < 0.1 else 'large'))
            if len(model.anchors) >= 2:
                ctx.nontrivial((n, info['geometry'], int(np.log10(frac) * 2) if frac else -99, scls))
            if c > 0 and ctx.tier == 'quick':
                continue
            # locality: displace every atom in turn
            for j in range(n):
                dcls = ['small', 'large', 'far'][int(rng.integers(0, 3))]
                conf2 = conf.copy()
                if dcls == 'small':
                    conf2[j] += rng.normal(size=3) * bond * 0.05
                elif dcls == 'large':
                    conf2[j] += rng.normal(size=3) * bond * 3
                else:
                    conf2[j] = conf[j] + rng.normal(size=3) * 500
                try:
                    out1 = np.array(emap(argument(conf2, j + c)).atoms_positions)
                except Exception as exc:  # noqa
                    ctx.violation(f'map-raises:{type(exc).__name__}', str(exc)[:200], witness=dict(w, displaced=j))
                    break
                ctx.monitor('locality')
                ctx.hit('displacement:' + dcls)
                role = 'other'
                for k in range(len(tpos)):
                    if len(model.allowed[k]) != 1 or model.gap[k] < 1e-9:
                        continue
                    a = model.allowed[k][0]
                    deps = {a} | set(model.frames[a])
                    if j in deps:
                        role = 'anchor' if j == a else ('frame-neighbour' if role != 'anchor' else role)
                        continue
                    err = float(np.linalg.norm(out1[k] - out0[k]))
                    if err > 1e-12:
                        ctx.violation('not-local', f'displacing reference atom {j} ({dcls}) moved mapped atom {k} by {err:.3g}; '
                                      f'its anchor {a} has frame neighbours {model.frames[a]}', witness=dict(w, displaced=j, conformation2=conf2))
                        break
                ctx.hit('displaced:' + role)
        if it == 0 and case['batch'] < 3:
            ctx.sample({'geometry': info['geometry'], 'n_ref': n, 'n_target': len(tpos), 's': s, 'edges': edges,
                        'anchors_and_frames': {a: model.frames[a] for a in model.anchors[:6]}, 'conformations': K})


def run_emb(ctx, case):
    """Every map call of a real extrapolation goes through the shape contract."""
    rng = ctx.rng('emb', case['i'])
    root = os.path.join(_tmp['dir'], f'w{os.getpid()}_{case["i"]}')
    w = world.make_world(rng, root, ninst=(2, 8), small_prob=0.15)
    before = ctx.monitors.get('em_shape_contract', 0)
    try:
        world.run_pipeline(w, scale=float(rng.choice([0.3, 0.5, 1.0])), steps_factor=3, seed=ctx.libseed('emb', case['i']))
    except Exception as exc:  # noqa
        ctx.violation(f'embedded-pipeline-raises:{type(exc).__name__}', str(exc)[:300],
                      witness={'species': {k: v['sizes'] for k, v in w['species'].items()}, 'end_for': w['end_for']})
        return
    finally:
        shutil.rmtree(root, ignore_errors=True)
    ctx.count('evaluations')
    ctx.count('embedded_map_calls_judged', ctx.monitors.get('em_shape_contract', 0) - before)
    ctx.hit('embedded:extrapolate')


def run_case(ctx, case):
    {'gen': run_gen, 'emb': run_emb}[case['kind']](ctx, case)
