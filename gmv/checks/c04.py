"""
C04 - applying an exchange map is pure, history-independent and species-checked.

Deciding monitor: history monitor with shadow state.  One long-lived map is
driven through a random history of calls (arguments from a pool, repeats
allowed), rejected arguments, and mutations of the construction molecules, of
earlier results and of earlier arguments.  After every operation every retained
object is compared with its shadow; every result is compared with what a fresh
map built from pristine deep copies returns for the same argument.
"""
import numpy as np

from .. import core, cover, emmon, gen, ref

LEVEL = 'exploration'
JOBS = {'quick': 4, 'thorough': 16}
REQUIRED_MONITORS = ('result_vs_fresh_map', 'shadow_comparison', 'rejection')
REQUIRED_CLASSES = ('call:through-a-copy-of-the-map', 'poke:edit-equivalences', 'poke:reassign-scale', 'reference:exactly-collinear-anchors', 'reject:other-residue-boundaries', 'mutate-construction:renumber', 'op:call', 'op:call-repeat', 'op:reject', 'op:mutate-ref', 'op:mutate-target', 'op:mutate-result',
                    'op:mutate-argument', 'multi-residue', 'shipped-pair', 'reject:other-atom-names', 'reject:non-molecule',
                    'call-after-reject', 'call-after-mutation', 'mutate-argument:partial', 'mutate-argument:rotate-about-own-atom',
                    'reject:same-foreign-object-again', 'map:made-by-an-alignment',
                    'history:construction-molecule-changed-before-first-use', 'op:degenerate-call', 'reject:late-name-other-bonds')
RULE = ('histories of up to 30 operations over {call(arg from a pool of 6 conformations), reject(foreign argument), '
        'mutate(construction reference|target), mutate(earlier result), mutate(earlier argument)} on one map; reference '
        '>= 3 atoms (generated trees/graphs, multi-residue, shipped CUR/VTE pairs). Non-trivial history: >= 3 distinct '
        'arguments, >= 1 rejection and >= 1 mutation before a later call. distinct = distinct operation-kind sequences '
        'x (n, multi-residue)')
ASSUMPTIONS = [
    'reference of >= 3 atoms with generic anchor frames (the map is then a deterministic function of the argument)',
    'reference and target have the same number of residues',
    'compared: coordinates (1e-12), atom names, residue names, atom order/count, residue numbers of the returned molecules; '
    'coordinates of arguments, construction molecules and earlier results (bitwise)',
]
_cov = cover.Coverage()


def setup(ctx):
    from gaddlemaps import _exchage_map
    EM = _exchage_map.ExchangeMap
    for name in ('__call__', '_restore_molecule', '_calculate_refsystems'):
        _cov.watch_attr(EM, name, f'ExchangeMap.{name}')
    _cov.start()


def teardown(ctx):
    _cov.stop()
    ctx.take_coverage(_cov)


def cases(ctx):
    n = 320 if ctx.tier == 'quick' else 60000
    for i in range(n):
        yield {'i': i}


def snap(mol):
    return {'pos': np.array(mol.atoms_positions, float), 'names': [a.name for a in mol],
            'resnames': [a.resname for a in mol], 'resids': list(mol.resids), 'atom_resids': [a.gro_resid for a in mol]}


def same_snap(a, b, tol=0.0):
    if a['names'] != b['names'] or a['resnames'] != b['resnames'] or a['resids'] != b['resids'] or a['atom_resids'] != b['atom_resids']:
        return False
    if a['pos'].shape != b['pos'].shape:
        return False
    return bool(np.abs(a['pos'] - b['pos']).max() <= tol) if a['pos'].size else True


def make_case(ctx, rng, i):
    """(ref, tgt, s, label, multi)"""
    if i % 10 == 9:
        from .c01 import load_shipped_pairs
        pairs = load_shipped_pairs(only=int(rng.integers(0, 2)))
        if pairs:
            label, a, b = pairs[0]
            b = b.copy()
            b.move_to(a.geometric_center)
            ctx.hit('shipped-pair')
            return a, b, 0.5, label, False
    exact = i % 4 == 3      # references with exactly collinear anchors (frames there are fixed by a convention of the library)
    for _ in range(50):
        geometry = ['partial-collinear', 'linear-int', 'lattice', 'partial-collinear-z', 'linear-x'][int(rng.integers(0, 5))] if exact else 'generic'
        edges, pos, info = emmon.gen_reference(rng, geometry, nmax=14)
        n = len(pos)
        if ref.anchors_of(n, edges) and emmon.frames_ok(n, edges, pos, allow_collinear=exact):
            break
    if exact:
        ctx.hit('reference:exactly-collinear-anchors')
    _exact['on'] = exact
    tpos = emmon.gen_target(rng, pos, 'around', mmax=30)
    multi = rng.random() < 0.4
    refm, tgtm = emmon.build_pair(rng, edges, pos, tpos, multi_res=multi)
    if len(refm.resids) > 1:
        ctx.hit('multi-residue')
    return refm, tgtm, emmon.gen_scale(rng, emmon.SCALES[int(rng.integers(0, 3))]), 'generated', len(refm.resids) > 1


_exact = {'on': False}


def conformation(rng, refm, k):
    pos = np.array(refm.atoms_positions)
    arg = refm.copy()
    if _exact['on'] and k % 2 == 0:
        # rigid motions that are exact in floating point for the dyadic coordinates of these references (axes permuted
        # and reflected in pairs, shifts by multiples of 1/8): collinear anchors stay exactly collinear, in another direction
        perm = rng.permutation(3)
        P = np.zeros((3, 3))
        P[np.arange(3), perm] = rng.choice([-1.0, 1.0], 3)
        if np.linalg.det(P) < 0:
            P[0] = -P[0]
        arg.atoms_positions = pos @ P.T + rng.integers(-40, 41, 3) * 0.125
    else:
        conf = pos + rng.normal(size=pos.shape) * 0.03
        R, t = gen.random_rotation(rng), rng.normal(size=3) * 4
        arg.atoms_positions = conf @ R.T + t
    nres = len(arg.resids)
    style = int(rng.integers(0, 5))
    if style == 4 and nres >= 2:
        # neighbouring residues that carry the same number (the argument's residues stay separate objects)
        first = int(rng.integers(1, 5000))
        nums, cur = [], first
        for j in range(nres):
            if j and rng.random() < 0.5:
                cur += 1
            nums.append(cur)
        arg.resids = nums
    elif style == 0 or style == 4:
        pass                                   # numbered exactly like the construction reference
    elif style == 1 or nres == 1:
        first = int(rng.integers(1, 5000))
        arg.resids = [first + j for j in range(nres)]
    else:
        # residue numbers of one molecule that are not consecutive: gaps, a restart (wrap of the file format), any order
        nums = [int(x) for x in rng.choice(np.arange(1, 9000), size=nres, replace=False)]
        if style == 2:
            nums = sorted(nums)
        arg.resids = nums
    return arg


def foreign(rng, refm, tgtm, kind):
    from gaddlemaps.components import Residue
    n = len(refm)
    pos = np.array(refm.atoms_positions)
    edges = emmon.mol_edges(refm)
    if kind == 'other-atom-names':
        names = [f'Q{j}' for j in range(n)]
        return gen.make_molecule(refm.name, names, edges, pos, resnames=[a.resname for a in refm],
                                 resids=[a.gro_resid for a in refm])
    if kind == 'late-name-other-bonds':
        # the same molecule name, size and residues; the atoms agree with the reference from the first on and only the
        # last one is called something else; the bonds are those of another molecule altogether (every atom bonded to the
        # first one, which in the reference may be a chain end)
        names = [a.name for a in refm]
        names[-1] = 'ZZ'
        return gen.make_molecule(refm.name, names, gen.star(n), pos, resnames=[a.resname for a in refm],
                                 resids=[a.gro_resid for a in refm])
    if kind == 'other-name':
        return gen.make_molecule(refm.name + 'X', [a.name for a in refm], edges, pos,
                                 resnames=[a.resname for a in refm], resids=[a.gro_resid for a in refm])
    if kind == 'other-size':
        return gen.make_molecule(refm.name, [a.name for a in refm][:-1], [e for e in edges if n - 1 not in e], pos[:-1],
                                 resnames=[a.resname for a in refm][:-1], resids=[a.gro_resid for a in refm][:-1])
    if kind == 'other-residue-boundaries':
        # same molecule name, same sequence of residue names, same atom names in the same order - but one atom belongs
        # to the neighbouring residue (another species with the same flat description)
        resnames = [a.resname for a in refm]
        resids = [a.gro_resid for a in refm]
        cuts = [j for j in range(1, n) if (resnames[j], resids[j]) != (resnames[j - 1], resids[j - 1])]
        ok = [c for c in cuts if (c + 1 < n and (c + 1 not in cuts)) or (c - 1 > 0 and (c - 1 not in cuts))]
        if not ok:
            return foreign(rng, refm, tgtm, 'other-atom-names')
        c = ok[int(rng.integers(0, len(ok)))]
        if c + 1 < n and (c + 1 not in cuts):
            resnames[c], resids[c] = resnames[c - 1], resids[c - 1]          # first atom of a residue joins the previous one
        else:
            resnames[c - 1], resids[c - 1] = resnames[c], resids[c]          # last atom of a residue joins the next one
        return gen.make_molecule(refm.name, [a.name for a in refm], edges, pos, resnames=resnames, resids=resids)
    if kind == 'target-molecule':
        return tgtm
    if kind == 'residue':
        return refm.residues[0]
    return {'int': 3, 'none': None, 'ndarray': pos, 'str': refm.name, 'numpy-scalar': np.float64(2.0), 'list-of-positions': pos.tolist()}[kind]


REJECTS = ['other-atom-names', 'other-name', 'other-size', 'target-molecule', 'residue', 'int', 'none', 'ndarray', 'str',
           'other-residue-boundaries', 'numpy-scalar', 'list-of-positions', 'late-name-other-bonds']


def run_case(ctx, case):
    from gaddlemaps import ExchangeMap
    from gaddlemaps.components import Molecule
    i = case['i']
    rng = ctx.rng('hist', i)
    refm, tgtm, s, label, multi = make_case(ctx, rng, i)
    # pristine deep copies for the fresh maps, taken before anything else happens
    P_ref, P_tgt = refm.deep_copy(), tgtm.deep_copy()
    tgt_names = [a.name for a in tgtm]
    tgt_resnames = [a.resname for a in tgtm]
    via_alignment = (i % 3 == 2)
    if via_alignment:
        # the map made for a pair held by an Alignment (what Manager.calculate_exchange_maps does for every species): the
        # construction molecules are the alignment's own start and end, which the user keeps working with
        from gaddlemaps import Alignment
        ali = Alignment(refm, tgtm)
        refm, tgtm = ali.start, ali.end
        P_ref, P_tgt = refm.deep_copy(), tgtm.deep_copy()
        ali.init_exchange_map(s)
        emap = ali.exchange_map
        ctx.hit('map:made-by-an-alignment')
    else:
        emap = ExchangeMap(refm, tgtm, s)
    inv0 = None
    if hasattr(emap, '_target_coordinates') and hasattr(emap, '_equivalences'):
        inv0 = ({k: np.array(v, copy=True) for k, v in emap._target_coordinates.items()}, dict(emap._equivalences))
    pool = [conformation(rng, refm, k) for k in range(6)]
    shadows = {'ref': snap(refm), 'tgt': snap(tgtm)}
    arg_shadow = [snap(a) for a in pool]
    results = []          # [molecule, shadow]
    history = []
    kinds = []
    used_args = set()
    pending = set()
    foreign_pool = {}
    nops = int(rng.integers(8, 31))
    ctx.count('evaluations')

    def fresh_result(arg):
        fr, ft = P_ref.deep_copy(), P_tgt.deep_copy()
        fmap = ExchangeMap(fr, ft, s)
        farg = fr.copy()
        farg.atoms_positions = np.array(arg.atoms_positions)
        farg.resids = list(arg.resids)
        return snap(fmap(farg))

    def compare_all(after):
        ctx.monitor('shadow_comparison')
        for key, mol in (('ref', refm), ('tgt', tgtm)):
            if not same_snap(snap(mol), shadows[key]):
                what = 'construction-reference' if key == 'ref' else 'construction-target'
                ctx.violation(f'{what}-changed', f'{what} molecule changed by {after}', witness={'history': history})
                shadows[key] = snap(mol)
        for k, a in enumerate(pool):
            if not same_snap(snap(a), arg_shadow[k]):
                ctx.violation('argument-changed', f'argument {k} changed by {after}', witness={'history': history})
                arg_shadow[k] = snap(a)
        for k, (m, sh) in enumerate(results):
            if not same_snap(snap(m), sh):
                ctx.violation('earlier-result-changed', f'result {k} changed by {after}', witness={'history': history})
                results[k][1] = snap(m)
        if inv0 is not None:
            tc, eq = inv0
            same = (eq == dict(emap._equivalences) and set(tc) == set(emap._target_coordinates)
                    and all(np.array_equal(tc[k], emap._target_coordinates[k]) for k in tc))
            if not same:
                ctx.violation('construction-table-changed', f'projection table / anchor assignment changed by {after}', witness={'history': history})

    for step in range(nops):
        op = ['call', 'reject', 'mutate-ref', 'mutate-target', 'mutate-result', 'mutate-argument', 'poke-map', 'degenerate-call'][
            int(rng.choice(8, p=[.38, .14, .1, .1, .1, .1, .05, .03]))]
        if op == 'mutate-result' and not results:
            op = 'call'
        if step == 0 and i % 2 == 0:
            # every other history begins by changing a construction molecule, before the map was ever used
            op = ['mutate-ref', 'mutate-target'][(i // 2) % 2]
            ctx.hit('history:construction-molecule-changed-before-first-use')
        if op == 'call':
            k = int(rng.integers(0, len(pool)))
            if history and history[-1][0] in ('call', 'mutate-argument') and rng.random() < 0.5:
                k = history[-1][1]          # the object that was just mapped / just mutated in place
            arg = pool[k]
            history.append(('call', k))
            ctx.hit('op:call-repeat' if k in used_args else 'op:call')
            used_args.add(k)
            caller = emap
            how_called = int(rng.integers(0, 8))
            if how_called == 0:
                import copy
                caller = copy.copy(emap)                 # a shallow copy of the map object answers like the map
                ctx.hit('call:through-a-copy-of-the-map')
            elif how_called == 1:
                import copy
                import pickle
                try:
                    caller = copy.deepcopy(emap) if rng.random() < 0.5 else pickle.loads(pickle.dumps(emap))
                    ctx.hit('call:through-a-deep-copy-of-the-map')
                except Exception:  # noqa  (the library's objects do not support deep copies / pickling at this commit)
                    ctx.count('deep_copy_of_map_not_supported')
                    caller = emap
            try:
                out = caller(arg)
            except Exception as exc:  # noqa
                ctx.violation(f'call-raises:{type(exc).__name__}', f'{exc} after {history[-6:]}', witness={'history': history})
                break
            got = snap(out)
            ctx.monitor('result_vs_fresh_map')
            want = fresh_result(arg)
            w = {'history': history, 'n_ref': len(refm), 'n_target': len(tgtm), 's': s, 'pair': label}
            if got['names'] != tgt_names or got['resnames'] != tgt_resnames:
                ctx.violation('result-names-differ-from-target', 'atom or residue names / order / count of the result differ from the target', witness=w)
            elif got['resids'] != list(arg.resids) or got['atom_resids'] != [list(arg.resids)[r] for r, res in enumerate(out.residues) for _ in res]:
                ctx.violation('result-resids-not-from-argument', f'result resids {got["resids"]} argument {list(arg.resids)}', witness=w)
            elif not same_snap(got, want, tol=1e-12):
                prev = 'after-rejection' if 'reject' in pending else ('after-mutation' if pending else 'plain')
                dmax = float(np.abs(got['pos'] - want['pos']).max()) if got['pos'].shape == want['pos'].shape else None
                ctx.violation(f'result-differs-from-fresh-map:{prev}', f'max coordinate difference {dmax} after {history[-6:]}', witness=w)
            for p in pending:
                ctx.hit('call-after-' + ('reject' if p == 'reject' else 'mutation'))
            pending.clear()
            if not isinstance(out, Molecule):
                ctx.violation('result-not-a-molecule', str(type(out)))
            results.append([out, got])
            if len(results) > 8:
                results.pop(0)
        elif op == 'reject':
            kind = REJECTS[int(rng.integers(0, len(REJECTS)))]
            history.append(('reject', kind))
            # foreign molecules are kept and re-used (the same object again, or a sibling copy sharing its topology)
            if kind in foreign_pool and rng.random() < 0.6:
                x = foreign_pool[kind]
                if hasattr(x, 'copy') and rng.random() < 0.5:
                    x = x.copy()
                ctx.hit('reject:same-foreign-object-again')
            else:
                x = foreign(rng, refm, tgtm, kind)
                foreign_pool[kind] = x
            ctx.monitor('rejection')
            ctx.hit('op:reject')
            ctx.hit('reject:' + (kind if kind in ('other-atom-names', 'other-name', 'other-size', 'target-molecule', 'other-residue-boundaries', 'late-name-other-bonds') else 'non-molecule'))
            try:
                emap(x)
                ctx.violation(f'foreign-argument-accepted:{kind}', f'no error for a {kind} argument', witness={'history': history})
            except TypeError:
                pass
            except Exception as exc:  # noqa
                ctx.violation(f'foreign-argument-raises-{type(exc).__name__}:{kind}', str(exc)[:200], witness={'history': history})
            pending.add('reject')
        elif op == 'degenerate-call':
            # a conformation of the right molecule in which an atom sits exactly on a bonded neighbour, mapped by a caller
            # that has NumPy raise on floating-point errors (or warnings as errors): whatever comes of that call - numbers
            # that are not numbers, an exception - is not judged; what the map answers afterwards is
            bad = pool[int(rng.integers(0, len(pool)))].copy()
            p = np.array(bad.atoms_positions)
            ed = emmon.mol_edges(refm)
            a, b = ed[int(rng.integers(0, len(ed)))]
            p[b] = p[a]
            bad.atoms_positions = p
            history.append(('degenerate-call', int(a), int(b)))
            ctx.hit('op:degenerate-call')
            try:
                with core.settings(['fp-raise', 'warnings-as-errors'][int(rng.integers(0, 2))]):
                    emap(bad)
            except Exception:  # noqa
                ctx.hit('recovery:call-failed-under-caller-settings-then-map-used-again')
            pending.add('reject')
        elif op in ('mutate-ref', 'mutate-target'):
            mol = refm if op == 'mutate-ref' else tgtm
            how = ['move', 'rotate', 'set', 'move_to', 'renumber'][int(rng.integers(0, 5))]
            history.append((op, how))
            ctx.hit('op:' + op)
            if how == 'renumber':
                # the residues of a construction molecule get other numbers after the map was built
                nres_m = len(mol.resids)
                mol.resids = [int(x) for x in rng.choice(np.arange(1, 9000), size=nres_m, replace=False)]
                ctx.hit('mutate-construction:renumber')
            elif how == 'move':
                mol.move(rng.normal(size=3) * 3)
            elif how == 'rotate':
                mol.rotate(gen.random_rotation(rng))
            elif how == 'set':
                mol.atoms_positions = np.array(mol.atoms_positions) + rng.normal(size=(len(mol), 3))
            else:
                mol.move_to(rng.normal(size=3) * 10)
            shadows['ref' if op == 'mutate-ref' else 'tgt'] = snap(mol)
            pending.add(op)
        elif op == 'poke-map':
            # what the map hands out about itself is edited by the caller, and public attributes are re-assigned with the
            # value they already have: neither may change what the map returns
            how = ['edit-equivalences', 'reassign-scale', 'assign-refusable-scale'][int(rng.integers(0, 3))]
            history.append((op, how))
            ctx.hit('poke:' + how)
            try:
                if how == 'edit-equivalences':
                    eq = emap.equivalences
                    for key in list(eq)[:3]:
                        v = eq[key]
                        if isinstance(v, list):
                            del v[:]
                        elif isinstance(v, set):
                            v.clear()
                    if isinstance(eq, dict) and eq:
                        eq.pop(next(iter(eq)))
                elif how == 'assign-refusable-scale':
                    # a value no scale factor can have is assigned; if the map refuses it (raises), the caller catches
                    # that and the map must go on with the factor it was built with; if the map takes it silently (a plain
                    # attribute), the caller puts the old value back
                    keep = emap.scale_factor
                    try:
                        emap.scale_factor = [0, -0.5, float('nan'), float('inf')][int(rng.integers(0, 4))]
                        emap.scale_factor = keep
                    except Exception:  # noqa
                        ctx.hit('poke:scale-assignment-refused')
                else:
                    emap.scale_factor = emap.scale_factor
            except Exception as exc:  # noqa
                ctx.count('poke_not_possible:' + type(exc).__name__)
            pending.add('poke')
        elif op == 'mutate-result':
            k = int(rng.integers(0, len(results)))
            history.append((op, k))
            ctx.hit('op:mutate-result')
            results[k][0].move(rng.normal(size=3) * 2)
            if rng.random() < 0.5:
                results[k][0].resids = [int(x) + 7 for x in results[k][0].resids]
            results[k][1] = snap(results[k][0])
            pending.add(op)
        else:
            k = int(rng.integers(0, len(pool)))
            how = ['move', 'partial', 'rotate-about-own-atom', 'copy-from-other-partial'][int(rng.integers(0, 4))]
            history.append((op, k, how))
            ctx.hit('op:mutate-argument')
            ctx.hit('mutate-argument:' + how)
            p = np.array(pool[k].atoms_positions)
            if how == 'move':
                pool[k].move(rng.normal(size=3))
            elif how == 'partial':
                # some atoms displaced in place, the others keep bit-identical coordinates
                sel = rng.random(len(p)) < 0.5
                sel[int(rng.integers(0, len(p)))] = True
                p[sel] += rng.normal(size=(int(sel.sum()), 3)) * 0.05
                pool[k].atoms_positions = p
            elif how == 'rotate-about-own-atom':
                j = int(rng.integers(0, len(p)))
                R = gen.random_rotation(rng)
                q = (p - p[j]) @ R.T + p[j]
                q[j] = p[j]
                pool[k].atoms_positions = q
            else:
                # the coordinates of another argument with a few atoms displaced
                src = np.array(pool[(k + 1) % len(pool)].atoms_positions)
                sel = rng.random(len(src)) < 0.3
                src[sel] += rng.normal(size=(int(sel.sum()), 3)) * 0.05
                pool[k].atoms_positions = src
            arg_shadow[k] = snap(pool[k])
            pending.add(op)
        kinds.append(op)
        compare_all(history[-1])
    if len(used_args) >= 3 and 'reject' in kinds and any(k.startswith('mutate') for k in kinds):
        ctx.nontrivial((tuple(kinds), len(refm), multi))
    if i < 3:
        ctx.sample({'pair': label, 'n_ref': len(refm), 'n_target': len(tgtm), 's': s, 'history': history})
