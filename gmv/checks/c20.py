"""
C20 - command-line mapping equals the library workflow; discovery is deterministic.

Deciding monitors (differential runs):
 * in-process gaddlemaps._cli.main() with patched sys.argv and a fixed numpy
   seed vs. the library workflow (Manager) run from the same seed with the
   species in the order the CLI used (observed at the auto_map boundary): the
   two output files must be byte-identical and written where requested;
 * sort_molecules(...) called for permuted candidate lists in-process and, in
   subprocesses, under several PYTHONHASHSEED values: the assignment must equal
   the generator's truth every time;
 * one real, unseeded CLI process on the shipped BMIM/BF4 files, its output
   judged by the conservation oracle of C05.
"""
import itertools
import json
import os
import shutil
import subprocess
import sys
import tempfile

import numpy as np

from .. import bus, core, cover, emmon, gen, ref, sysgen, world

LEVEL = 'exploration'
JOBS = {'quick': 4, 'thorough': 16}
REQUIRED_MONITORS = ('cli_vs_library_bytes', 'discovery_vs_truth', 'discovery_hash_seeds', 'real_cli_process', 'cli_hash_seeds')
REQUIRED_CLASSES = ('mol:explicit-only', 'mol:explicit+auto', 'auto-only', 'exclude', 'exclude:several', 'output:given', 'output:default',
                    'input:other-directory', 'distractor:absent-species-topology', 'distractor:foreign-coordinates',
                    'distractor:unknown-extension', 'distractor:system-file-in-list', 'distractor:previous-output', 'distractor:impostor-topology',
                    'species-without-end-files', 'explicit-also-in-list', 'explicit-also-in-list:every-file-spelled-differently', 'order:small-species-before-a-searched-one', 'output:path-holds-the-result-of-an-earlier-run', 'discovery:crowded-directory-under-a-descriptor-limit', 'mol:end-topology-named-differently', 'candidates:files-listed-twice', 'paths:explicit-and-listed-spelled-differently', 'scale:non-default', 'output-path:absolute',
                    'output-path:relative-plain', 'output-path:relative-subdir')
RULE = ('generated directories of 2-4 species with distractor files (topologies of absent species, foreign coordinate files, '
        'unknown extensions, the system file and a previous output in the candidate list, a species without end files) x '
        'explicit/auto/excluded subsets x scales {0.3,0.5,1} x output given/defaulted; discovery under every permutation '
        '(<= 6 files) or 20-50 random orders of the candidate list and 3-5 PYTHONHASHSEED values; shipped BMIM/BF4 files. '
        'Non-trivial: >= 2 species discovered or explicit+auto mixed. distinct = distinct (species sizes, explicit set, '
        'excluded set, scale, output mode, distractor set)')
ASSUMPTIONS = [
    'complete species are unambiguous: exactly one end coordinate file and one end topology match each species; end topologies '
    'carry the same molecule name as the start topology; >= 2 instances per mapped species in a "previous output" file',
    'the CLI itself does not seed numpy: byte equality is judged with the global numpy stream seeded identically before both runs',
    'hash seeds and candidate orders are sampled',
]
_cov = cover.Coverage()
_tmp = {}


def setup(ctx):
    import gaddlemaps._cli as cli
    for name in ('auto_map', 'classify_files', 'sort_molecules', 'main'):
        _cov.watch_attr(cli, name)
    _cov.start()
    _tmp['dir'] = tempfile.mkdtemp(prefix='gmv_c20_')


def teardown(ctx):
    _cov.stop()
    ctx.take_coverage(_cov)
    shutil.rmtree(_tmp['dir'], ignore_errors=True)


def cases(ctx):
    n = 24 if ctx.tier == 'quick' else 2400
    for i in range(n):
        yield {'kind': 'world', 'i': i}
    yield {'kind': 'shipped-discovery'}
    yield {'kind': 'real-cli'}


# ---------------------------------------------------------------------------

def add_distractors(rng, w, which):
    """Adds distractor files to the world directory; returns their paths."""
    root = w['root']
    extra = []
    if 'absent-species-topology' in which:
        sp = sysgen.make_species(rng, 'GHOST', [int(rng.integers(2, 6))], ['GHO'], prefix='G')
        p = os.path.join(root, 'ghost_start.itp')
        sysgen.write_species_itp(sp, p)
        extra.append(p)
        end = sysgen.make_species(rng, 'GHOST', [int(rng.integers(7, 12))], ['GHO'], prefix='Q')
        p2, g2 = os.path.join(root, 'ghost_end.itp'), os.path.join(root, 'ghost_end.gro')
        sysgen.write_species_itp(end, p2)
        sysgen.write_species_gro(end, g2)
        extra += [p2, g2]
    if 'foreign-coordinates' in which:
        sp = sysgen.make_species(rng, 'ALIEN', [int(rng.integers(2, 9))], ['ALI'], prefix='X')
        g = os.path.join(root, 'alien.gro')
        sysgen.write_species_gro(sp, g)
        extra.append(g)
    if 'unknown-extension' in which:
        for name in ('notes.txt', 'structure.pdb', 'README'):
            p = os.path.join(root, name)
            with open(p, 'w') as fh:
                fh.write('not a gromacs file\n')
            extra.append(p)
    if 'impostor-topology' in which:
        # topologies of another model of a species that IS in the system: same residue names and sizes as its start
        # topology (so the first look at the coordinate file matches), other atom names, another molecule name
        for k, n in enumerate(list(w['files'])[:2]):
            sp = dict(w['species'][n])
            sp['name'] = f'{n}_M3'
            sp['atoms'] = [(f'Z{j}', rn, rid) for j, (_, rn, rid) in enumerate(sp['atoms'])]
            p = os.path.join(root, f'{"aAzZ"[k * 2 + int(rng.integers(0, 2))]}_impostor_{n}.itp')
            sysgen.write_species_itp(sp, p)
            extra.append(p)
    if 'system-file-in-list' in which:
        extra.append(w['system_gro'])
    if 'previous-output' in which and w.get('previous_output'):
        extra.append(w['previous_output'])
    return extra


def truth_assignment(w, exclude_known=()):
    out = {}
    for n in w['end_for']:
        if n in exclude_known:
            continue
        f = w['files'][n]
        out[n] = {'top_CG': os.path.realpath(f['top_start']), 'top_AA': os.path.realpath(f['top_end']), 'coor_AA': os.path.realpath(f['gro_end'])}
    return out


HASH_DRIVER = r'''
import json, os, sys
sys.path.insert(0, os.environ['VERIF_REPO_PATH'])
import warnings; warnings.simplefilter('ignore')
from gaddlemaps._cli import sort_molecules
spec = json.load(open(sys.argv[1]))
try:
    res = sort_molecules(spec['ref'], spec['files'], spec['known'])
    print(json.dumps({'ok': True, 'result': res}))
except BaseException as exc:
    print(json.dumps({'ok': False, 'error': type(exc).__name__ + ': ' + str(exc)[:200]}))
'''


CLI_DRIVER = r'''
import json, os, sys
sys.path.insert(0, os.environ['VERIF_REPO_PATH'])
import warnings; warnings.simplefilter('ignore')
import numpy as np
spec = json.load(open(sys.argv[1]))
sys.argv_spec = os.path.abspath(sys.argv[1])
from gaddlemaps import Alignment
import gaddlemaps._cli as cli
Alignment.STEPS_FACTOR = spec['steps']
os.chdir(spec['cwd'])
sys.argv = spec['argv']
sys.stdout = open(os.devnull, 'w')
real = cli.auto_map
def auto_map(*args, **kwargs):
    species = args[1] if len(args) > 1 else kwargs['species']
    json.dump([[os.path.abspath(x) for x in s] for s in species], open(sys.argv_spec + '.species', 'w'))
    return real(*args, **kwargs)
sys.argv_spec = os.path.abspath(sys.argv_spec) if hasattr(sys, 'argv_spec') else None
cli.auto_map = auto_map
np.random.seed(spec['seed'])
cli.main()
'''


def complete_only(res):
    """The part of a discovery result the CLI acts upon."""
    # (files are identified as files, not by the spelling of their path)
    return {k: {role: os.path.realpath(f) for role, f in v.items()} for k, v in res.items() if len(v) == 3}


def check_discovery(ctx, w, candidates, known, wit, n_orders, hash_seeds):
    import gaddlemaps._cli as cli
    rng = np.random.default_rng(len(candidates) + 17)
    known_names = set()
    from gaddlemaps.parsers import read_topology
    for k in known:
        known_names.add(read_topology(k[0])[0])
    truth = truth_assignment(w, exclude_known=known_names)
    orders = []
    if len(candidates) <= 6:
        orders = [list(p) for p in itertools.permutations(candidates)][:n_orders * 4]
    else:
        orders = [candidates] + [[candidates[int(i)] for i in rng.permutation(len(candidates))] for _ in range(n_orders)]
    first = None
    # a crowded directory and a modest limit on open files (ulimit -n): forty coordinate files that belong to nothing are
    # among the candidates, and the process may hold two dozen descriptors more than it holds now; files that were looked
    # at and put aside are not kept open
    crowd_dir = os.path.join(w['root'], 'crowd')
    if not os.path.isdir(crowd_dir):
        os.makedirs(crowd_dir)
        for k in range(40):
            gen.write_gro(os.path.join(crowd_dir, f'frame{k}.gro'), f'unrelated {k}',
                          [(1, 'XXX', f'X{j}', j + 1, (0.1 * j, 0.2, 0.3 + k), None) for j in range(2 + k % 3)], np.array([3.0, 3.0, 3.0]))
    crowd = [os.path.join(crowd_dir, f) for f in sorted(os.listdir(crowd_dir))]
    import resource
    soft, hard = resource.getrlimit(resource.RLIMIT_NOFILE)
    mixed = list(candidates) + crowd
    mixed = [mixed[int(k)] for k in rng.permutation(len(mixed))]
    try:
        resource.setrlimit(resource.RLIMIT_NOFILE, (len(os.listdir('/proc/self/fd')) + 24, hard))
        ctx.monitor('discovery_vs_truth')
        ctx.count('evaluations')
        ctx.hit('discovery:crowded-directory-under-a-descriptor-limit')
        try:
            res = cli.sort_molecules(w['system_gro'], mixed, [list(k) for k in known])
            got = complete_only(res)
        finally:
            resource.setrlimit(resource.RLIMIT_NOFILE, (soft, hard))
        if got != truth:
            names_bad = sorted(set(got) ^ set(truth)) or sorted(n for n in truth if got.get(n) != truth[n])
            ctx.violation('discovery-assignment-wrong:crowded-directory', f'with 40 unrelated coordinate files listed and room for 24 more open files: '
                          f'species {names_bad} differ', witness=wit)
            return False
    except Exception as exc:  # noqa
        resource.setrlimit(resource.RLIMIT_NOFILE, (soft, hard))
        ctx.violation(f'discovery-crashes:crowded-directory:{type(exc).__name__}', str(exc)[:150], witness=wit)
        return False
    for order in orders:
        ctx.monitor('discovery_vs_truth')
        ctx.count('evaluations')
        try:
            res = cli.sort_molecules(w['system_gro'], list(order), [list(k) for k in known])
        except Exception as exc:  # noqa
            no_end = [n for n in w['files'] if n not in w['end_for']]
            mech = 'discovery-crashes:species-without-end-files' if (isinstance(exc, KeyError) and 'top_AA' in str(exc) and no_end) \
                else f'discovery-crashes:{type(exc).__name__}'
            ctx.violation(mech, f'{type(exc).__name__}: {str(exc)[:150]}', witness=dict(wit, order=[os.path.basename(x) for x in order]))
            return False
        got = complete_only(res)
        if got != truth:
            names_bad = sorted(set(got) ^ set(truth)) or sorted(n for n in truth if got.get(n) != truth[n])
            mech = 'discovery-readds-explicit-species' if set(got) & known_names else 'discovery-assignment-wrong'
            ctx.violation(mech, f'species {names_bad}: got { {n: {k: os.path.basename(v) for k, v in got.get(n, {}).items()} for n in names_bad} }',
                          witness=dict(wit, order=[os.path.basename(x) for x in order]))
            return False
        if first is None:
            first = got
    # out of process, several hash seeds
    specfile = os.path.join(w['root'], 'discovery_spec.json')
    with open(specfile, 'w') as fh:
        json.dump({'ref': w['system_gro'], 'files': candidates, 'known': [list(k) for k in known]}, fh)
    env = dict(os.environ, VERIF_REPO_PATH=core.REPO)
    for h in hash_seeds:
        env['PYTHONHASHSEED'] = str(h)
        try:
            r = subprocess.run([sys.executable, '-W', 'ignore', '-c', HASH_DRIVER, specfile], env=env, capture_output=True,
                               text=True, timeout=300)
            out = json.loads(r.stdout.strip().splitlines()[-1])
        except Exception as exc:  # noqa
            ctx.inconclusive_because(f'hash-seed driver failed: {exc}')
            return False
        ctx.monitor('discovery_hash_seeds')
        ctx.count('evaluations')
        if not out['ok']:
            ctx.violation('discovery-crashes-under-hash-seed', f'PYTHONHASHSEED={h}: {out["error"]}', witness=wit)
            return False
        if complete_only(out['result']) != truth:
            ctx.violation('discovery-depends-on-hash-seed', f'PYTHONHASHSEED={h} gives another assignment', witness=wit)
            return False
    return True


def library_run(w, species_triples, scale, out, seed, steps):
    """The documented library workflow for the same files, scale and seed."""
    from gaddlemaps import Manager, Alignment
    from gaddlemaps.components import Molecule
    from gaddlemaps.parsers import read_topology
    old = Alignment.STEPS_FACTOR
    Alignment.STEPS_FACTOR = steps
    try:
        np.random.seed(seed)
        man = Manager.from_files(w['system_gro'], *[t[0] for t in species_triples])
        for t in species_triples:
            end = Molecule.from_files(t[1], t[2])
            start_name = read_topology(t[0])[0]
            if end.name == start_name:
                man.add_end_molecule(end)
            else:
                # an explicit triple pairs the files whatever the end topology calls the molecule
                man.molecule_correspondence[start_name].end = end
        man.align_molecules()
        man.calculate_exchange_maps(scale_factor=scale)
        man.extrapolate_system(out)
    finally:
        Alignment.STEPS_FACTOR = old


def run_world(ctx, case):
    import gaddlemaps._cli as cli
    from gaddlemaps import Alignment
    i = case['i']
    rng = ctx.rng('world', i)
    root = os.path.join(_tmp['dir'], f'w{os.getpid()}_{i}')
    nsp = int(rng.integers(2, 5))
    many = (i % 6 in (1, 2))            # four complete species: room for several exclusions
    if many:
        nsp = 4
    # every other explicit-only case: the species handed over first has one or two beads (its alignment does not search)
    # and is followed by species that do
    small_first = (i % 3 == 0 and (i // 3) % 2 == 1)
    if small_first:
        nsp = max(nsp, 3)
    w = world.make_world(rng, root, nspecies=nsp, ninst=(2, 6), small_prob=0.2, force_small=('SPA',) if small_first else (),
                         end_for=['SPA', 'SPB', 'SPC', 'SPD'] if many else
                         (None if i % 3 else ['SPA', 'SPB', 'SPC', 'SPD'][:nsp][:max(1, nsp - 1)]))
    names = list(w['files'])
    complete = list(w['end_for'])
    no_end = [n for n in names if n not in complete]
    if no_end:
        ctx.hit('species-without-end-files')
    steps = 3
    seed = ctx.libseed('world', i)
    # a "previous output" for the distractor list
    prev = os.path.join(root, 'mapped_before.gro')
    try:
        world.run_pipeline(w, scale=0.5, steps_factor=steps, seed=seed, out=prev)
        w['previous_output'] = prev
    except Exception as exc:  # noqa
        ctx.violation(f'library-pipeline-raises:{type(exc).__name__}', str(exc)[:200])
        shutil.rmtree(root, ignore_errors=True)
        return
    dist = [d for d in ('absent-species-topology', 'foreign-coordinates', 'unknown-extension', 'system-file-in-list',
                        'previous-output', 'impostor-topology') if rng.random() < 0.6]
    extra = add_distractors(rng, w, dist)
    for d in dist:
        ctx.hit('distractor:' + d)
    # which species explicit / auto / excluded
    mode = ['explicit-only', 'explicit+auto', 'auto-only'][i % 3]
    if mode == 'explicit-only':
        explicit = list(complete)
    elif mode == 'explicit+auto' and len(complete) >= 2:
        k = 1 if many else int(rng.integers(1, len(complete)))
        explicit = [complete[int(j)] for j in rng.choice(len(complete), k, replace=False)]
    else:
        explicit = []
        mode = 'auto-only'
    # every other explicit+auto case: the explicit species are also in the scanned list, every one of their files under
    # another spelling than the one given with --mol
    hostile_spelling = (mode == 'explicit+auto' and (i // 3) % 2 == 0)
    styles = {}

    def respell(path, style=None):
        # another spelling of the same absolute path (as produced by shell completion, scripts joining directories, ...)
        d, f = os.path.split(path)
        style = int(rng.integers(0, 4)) if style is None else style
        styles[path] = style
        if style == 0:
            return path
        ctx.hit('paths:explicit-and-listed-spelled-differently')
        if style == 1:
            return os.path.join(d, '.', f)
        if style == 2:
            return os.path.join(d, '..', os.path.basename(d), f)
        return d + os.sep + os.sep + f
    spelled = {}

    def triple(n):
        if n not in spelled:
            spelled[n] = [respell(w['files'][n][k]) for k in ('top_start', 'gro_end', 'top_end')]
        return list(spelled[n])
    auto = mode != 'explicit-only'
    if not auto and i % 2 == 0:
        # explicit triples only: the end topology of one species calls the molecule something else (e.g. BMIM_AA)
        n = explicit[int(rng.integers(0, len(explicit)))]
        sysgen.write_species_itp(dict(w['end_species'][n], name=n + '_AA'), w['files'][n]['top_end'])
        ctx.hit('mol:end-topology-named-differently')
    candidates = []
    if auto:
        for n in names:
            if n in explicit and rng.random() < 0.5 and not hostile_spelling:
                continue
            mine = [w['files'][n]['top_start']] + ([w['files'][n]['gro_end'], w['files'][n]['top_end']] if n in complete else [])
            if n in explicit and hostile_spelling:
                triple(n)
                mine = [respell(c, (styles[c] + 1 + int(rng.integers(0, 3))) % 4) for c in mine]
            candidates += mine
        if any(os.path.realpath(w['files'][n]['top_start']) in {os.path.realpath(c) for c in candidates} for n in explicit):
            ctx.hit('explicit-also-in-list')
        candidates = [respell(c) if (rng.random() < 0.3 and os.path.normpath(c) == c) else c for c in candidates]
        if rng.random() < 0.4:
            # the same file named more than once (overlapping shell globs)
            for c in [candidates[int(j)] for j in rng.integers(0, len(candidates), int(rng.integers(1, 4)))]:
                candidates.insert(int(rng.integers(0, len(candidates) + 1)), c)
            ctx.hit('candidates:files-listed-twice')
        candidates += extra
        candidates = [candidates[int(j)] for j in rng.permutation(len(candidates))]
        for n in explicit:
            mine = triple(n)
            same_file = [c for c in candidates if os.path.realpath(c) == os.path.realpath(mine[0])]
            if same_file and any(c != mine[0] for c in same_file):
                ctx.hit('explicit-also-in-list:spelled-differently')
            if all(any(os.path.realpath(c) == os.path.realpath(m) for c in candidates) and m not in candidates for m in mine):
                ctx.hit('explicit-also-in-list:every-file-spelled-differently')
    auto_found = [n for n in complete if n not in explicit] if auto else []
    excluded = []
    if auto and auto_found and len(auto_found) + len(explicit) >= 2 and (many or rng.random() < 0.6):
        kmax = len(auto_found) if explicit else len(auto_found) - 1
        k = int(rng.integers(1, kmax + 1))
        if many and kmax >= 2:
            k = int(rng.integers(2, kmax + 1))
        excluded = [auto_found[int(j)] for j in rng.choice(len(auto_found), k, replace=False)]
        ctx.hit('exclude')
        if k >= 2:
            ctx.hit('exclude:several')
    scale = float(rng.choice([0.3, 0.5, 1.0]))
    rng.integers(0, 2); rng.random()        # (keeps the random stream of earlier versions)
    out_mode = ['given', 'default', 'given'][i % 3]          # stratified: every class is reached whatever the seed
    other_dir = (i % 5 in (1, 3))
    cwd = os.path.join(root, 'cwd')
    os.makedirs(cwd, exist_ok=True)
    out_given = os.path.join(root, 'outdir', 'result.gro')
    os.makedirs(os.path.dirname(out_given), exist_ok=True)
    rng.integers(0, 4)
    out_style = ['absolute', 'relative-plain', 'relative-subdir', 'relative-parent'][(i // 3) % 4]
    if out_style == 'relative-plain':
        out_given = 'result.v2.gro'                       # relative to the working directory, dots in the name
    elif out_style == 'relative-subdir':
        os.makedirs(os.path.join(cwd, 'sub'), exist_ok=True)
        out_given = os.path.join('sub', 'result.gro')
    elif out_style == 'relative-parent':
        out_given = os.path.join('..', 'outdir', 'result.gro')
    init_arg = w['system_gro'] if other_dir else os.path.relpath(w['system_gro'], cwd)
    argv = ['gaddlemaps', init_arg]
    for n in explicit:
        argv += ['--mol'] + triple(n)
    handed = explicit + [n for n in complete if n not in explicit]
    nb = [len(w['species'][n]['atoms']) for n in handed]
    if any(a <= 2 and any(b >= 3 for b in nb[k + 1:]) for k, a in enumerate(nb[:len(explicit)])):
        ctx.hit('order:small-species-before-a-searched-one')
    if scale != 0.5 or rng.random() < 0.5:
        argv += ['--scale', str(scale)]
    if out_mode == 'given':
        argv += ['-o', out_given]
    if auto:
        argv += ['--auto'] + candidates
    if excluded:
        argv += ['--exclude'] + excluded
    wit = {'argv': [os.path.basename(a) if os.sep in a else a for a in argv], 'species': {n: w['species'][n]['sizes'] for n in names},
           'complete': complete, 'explicit': explicit, 'excluded': excluded, 'scale': scale, 'distractors': dist, 'seed': seed}
    expected_out = out_given if out_mode == 'given' else os.path.join(os.path.dirname(init_arg), 'mapped_system.gro')
    expected_abs = expected_out if os.path.isabs(expected_out) else os.path.normpath(os.path.join(cwd, expected_out))
    # ---- discovery first (so that a crash there is reported as such)
    if auto:
        ok = check_discovery(ctx, w, candidates, [triple(n) for n in explicit], wit,
                             n_orders=20 if ctx.tier == 'quick' else 50,
                             hash_seeds=[0, 1, 2] if ctx.tier == 'quick' else [0, 1, 2, 3, int(rng.integers(4, 10 ** 6))])
        if not ok:
            shutil.rmtree(root, ignore_errors=True)
            return
    # ---- the CLI, in process
    recorded = {}

    def make(real):
        def auto_map(*args, **kwargs):
            refrence_coordinates, species, scale, outfile = bus.seen(('refrence_coordinates', 'species', 'scale', 'outfile'), args, kwargs,
                                                                     {'scale': 0.5})
            recorded['species'] = [list(s) for s in species]
            recorded['scale'] = scale
            recorded['outfile'] = outfile
            recorded['ref'] = refrence_coordinates
            return real(*args, **kwargs)
        return auto_map
    if (i // 2) % 2 == 0 and w.get('previous_output'):
        # a re-run: the place where the result goes already holds the result of an earlier run (another seed and scale)
        os.makedirs(os.path.dirname(expected_abs), exist_ok=True)
        shutil.copyfile(w['previous_output'], expected_abs)
        ctx.hit('output:path-holds-the-result-of-an-earlier-run')
    before_files = {os.path.join(dp, f) for dp, _, fs in os.walk(root) for f in fs}
    old_argv, old_cwd, old_steps = sys.argv, os.getcwd(), Alignment.STEPS_FACTOR
    real_auto_map = cli.auto_map
    try:
        os.chdir(cwd)
        sys.argv = argv
        Alignment.STEPS_FACTOR = steps
        cli.auto_map = make(real_auto_map)
        np.random.seed(seed)
        cli.main()
    except SystemExit as exc:
        ctx.violation('cli-exits', f'SystemExit({exc.code})', witness=wit)
        return
    except Exception as exc:  # noqa
        ctx.violation(f'cli-raises:{type(exc).__name__}', str(exc)[:200], witness=wit)
        return
    finally:
        cli.auto_map = real_auto_map
        sys.argv = old_argv
        os.chdir(old_cwd)
        Alignment.STEPS_FACTOR = old_steps
    ctx.count('evaluations')
    ctx.hit('mol:' + mode if mode != 'auto-only' else 'auto-only')
    ctx.hit('output:' + out_mode)
    if out_mode == 'given':
        ctx.hit('output-path:' + out_style)
    if other_dir:
        ctx.hit('input:other-directory')
    if scale != 0.5:
        ctx.hit('scale:non-default')
    after_files = {os.path.join(dp, f) for dp, _, fs in os.walk(root) for f in fs}
    new_files = sorted(after_files - before_files)
    if not os.path.exists(expected_abs):
        ctx.violation('output-not-at-requested-path', f'expected {os.path.relpath(expected_abs, root)}, new files {[os.path.relpath(f, root) for f in new_files]}', witness=wit)
        return
    if [f for f in new_files if os.path.normpath(f) != os.path.normpath(expected_abs)]:
        ctx.violation('unexpected-extra-output-files', f'{[os.path.relpath(f, root) for f in new_files]}', witness=wit)
    # species the CLI mapped: explicit ones first in the given order, then the discovered ones minus the excluded
    want_species = explicit + [n for n in auto_found if n not in excluded]
    got_triples = recorded.get('species', [])
    from gaddlemaps.parsers import read_topology
    got_names = [read_topology(t[0])[0] for t in got_triples]
    if got_names[:len(explicit)] != explicit or sorted(got_names) != sorted(want_species):
        mech = 'excluded-species-mapped' if set(got_names) & set(excluded) else \
            ('explicit-species-added-twice' if len(got_names) != len(set(got_names)) else 'cli-maps-wrong-species-set')
        ctx.violation(mech, f'CLI mapped {got_names}, expected explicit {explicit} + discovered {sorted(set(want_species) - set(explicit))}', witness=wit)
        return
    for t, n in zip(got_triples, got_names):
        if [os.path.normpath(x) for x in t] != [os.path.normpath(x) for x in triple(n)]:
            ctx.violation('cli-uses-wrong-files-for-species', f'{n}: {[os.path.basename(x) for x in t]}', witness=wit)
            return
    # ---- the library workflow with the same files, scale and seed
    lib_out = os.path.join(root, 'library_result.gro')
    try:
        library_run(w, got_triples, scale, lib_out, seed, steps)
    except Exception as exc:  # noqa
        ctx.violation(f'library-workflow-raises:{type(exc).__name__}', str(exc)[:200], witness=wit)
        return
    ctx.monitor('cli_vs_library_bytes')
    a, b = open(expected_abs, 'rb').read(), open(lib_out, 'rb').read()
    if a != b:
        la, lb = a.split(b'\n'), b.split(b'\n')
        k = next((j for j, (x, y) in enumerate(zip(la, lb)) if x != y), min(len(la), len(lb)))
        how = 'scale-not-forwarded' if recorded.get('scale') != scale else 'cli-output-differs-from-library-workflow'
        ctx.violation(how, f'first difference at line {k}: {la[k][:60] if k < len(la) else None!r} vs {lb[k][:60] if k < len(lb) else None!r} '
                      f'({len(la)} vs {len(lb)} lines; scale given {scale}, forwarded {recorded.get("scale")})', witness=wit)
    # ---- the same command line in fresh interpreters with other hash seeds: same random seed, same bytes
    if i % 2 == 0 and a == b:
        specfile = os.path.join(root, 'cli_spec.json')
        with open(specfile, 'w') as fh:
            json.dump({'argv': argv, 'cwd': cwd, 'seed': int(seed), 'steps': steps}, fh)
        env = dict(os.environ, VERIF_REPO_PATH=core.REPO)
        for h in ([1, 2] if ctx.tier == 'quick' else [1, 2, 3, int(rng.integers(4, 10 ** 6))]):
            env['PYTHONHASHSEED'] = str(h)
            os.remove(expected_abs)
            try:
                r = subprocess.run([sys.executable, '-W', 'ignore', '-c', CLI_DRIVER, specfile], env=env, capture_output=True,
                                   text=True, timeout=600)
            except subprocess.TimeoutExpired:
                ctx.inconclusive_because('the CLI driver under another hash seed did not finish within 10 minutes')
                break
            ctx.monitor('cli_hash_seeds')
            ctx.count('evaluations')
            if r.returncode != 0 or not os.path.exists(expected_abs):
                ctx.violation('cli-fails-under-hash-seed', f'PYTHONHASHSEED={h}: rc={r.returncode}; {r.stderr[-200:]}', witness=wit)
                break
            got_h = open(expected_abs, 'rb').read()
            order_h = json.load(open(specfile + '.species'))
            discovered = [n for n in auto_found if n not in excluded]
            if len(discovered) <= 1:
                # the order in which the species are aligned is fixed by the command line: one output for one random seed
                ctx.hit('hash-seeds:species-order-fixed-by-command-line')
                if got_h != a:
                    ctx.violation('cli-output-depends-on-hash-seed', f'PYTHONHASHSEED={h}: the output file differs from the one written with hash '
                                  f'seed 0 (same files, scale and random seed; species order fixed by the command line)', witness=wit)
                    break
            else:
                # several discovered species: the statement fixes which files each species gets, not the order in which
                # discovery lists them (it follows a set of file names), so the run is compared with the library workflow
                # fed with the species in the order this run used
                ctx.hit('hash-seeds:several-discovered-species')
                lib_h = os.path.join(root, f'library_result_h{h}.gro')
                try:
                    library_run(w, order_h, scale, lib_h, seed, steps)
                except Exception as exc:  # noqa
                    ctx.violation(f'library-workflow-raises:{type(exc).__name__}', str(exc)[:200], witness=wit)
                    break
                if sorted(tuple(os.path.realpath(x) for x in t) for t in order_h) != sorted(tuple(os.path.realpath(x) for x in t) for t in got_triples):
                    ctx.violation('discovery-depends-on-hash-seed', f'PYTHONHASHSEED={h}: the command line tool mapped other species / files', witness=wit)
                    break
                if got_h != open(lib_h, 'rb').read():
                    ctx.violation('cli-output-differs-from-library-workflow', f'PYTHONHASHSEED={h}: output differs from the library workflow run '
                                  f'with the same species order, scale and random seed', witness=wit)
                    break
    if len(want_species) >= 2 or (explicit and auto_found):
        ctx.nontrivial((tuple(sorted((n, tuple(w['species'][n]['sizes'])) for n in names)), tuple(explicit), tuple(excluded), scale, out_mode, tuple(dist)))
    if i < 3:
        ctx.sample({'argv': wit['argv'], 'species_sizes': wit['species'], 'explicit': explicit, 'discovered': sorted(set(want_species) - set(explicit)),
                    'excluded': excluded, 'output': os.path.relpath(expected_abs, root), 'bytes': len(a), 'identical_to_library_workflow': a == b})
    shutil.rmtree(root, ignore_errors=True)


def shipped_files():
    import gaddlemaps
    d = os.path.join(os.path.dirname(gaddlemaps.__file__), 'data')
    return d, {'BMIM': {'top_CG': os.path.join(d, 'BMIM_CG.itp'), 'top_AA': os.path.join(d, 'BMIM_AA.itp'), 'coor_AA': os.path.join(d, 'BMIM_AA.gro')},
               'BF4': {'top_CG': os.path.join(d, 'BF4_CG.itp'), 'top_AA': os.path.join(d, 'BF4_AA.itp'), 'coor_AA': os.path.join(d, 'BF4_AA.gro')}}


def run_shipped_discovery(ctx, case):
    """Discovery on the shipped data directory: BMIM and BF4 are the only
    species of the shipped box; every other file is a distractor."""
    import gaddlemaps._cli as cli
    d, truth = shipped_files()
    sysf = os.path.join(d, 'system_bmimbf4_cg.gro')
    files = [os.path.join(d, f) for f in sorted(os.listdir(d)) if os.path.getsize(os.path.join(d, f)) > 0]
    small = [f for f in files if os.path.basename(f).split('_')[0] in ('BMIM', 'BF4', 'system', 'SDS', 'CUR', 'VTE')]
    rng = ctx.rng('shipped')
    for k in range(4 if ctx.tier == 'quick' else 30):
        order = [small[int(j)] for j in rng.permutation(len(small))]
        ctx.monitor('discovery_vs_truth')
        ctx.count('evaluations')
        try:
            res = cli.sort_molecules(sysf, order, [])
        except Exception as exc:  # noqa
            ctx.violation(f'discovery-crashes-on-shipped-directory:{type(exc).__name__}', str(exc)[:200], witness={'order': [os.path.basename(x) for x in order]})
            return
        if complete_only(res) != truth:
            ctx.violation('discovery-assignment-wrong', f'shipped directory: {complete_only(res)}', witness={'order': [os.path.basename(x) for x in order]})
            return
    ctx.nontrivial(('shipped-discovery',))
    ctx.sample({'shipped discovery': {k: {a: os.path.basename(b) for a, b in v.items()} for k, v in truth.items()}, 'candidates': len(small)})


REAL_CLI = r'''
import os, sys
sys.path.insert(0, os.environ['VERIF_REPO_PATH'])
from gaddlemaps._cli import main
sys.argv = ['gaddlemaps'] + sys.argv[1:]
main()
'''


def run_real_cli(ctx, case):
    """One real, unseeded CLI process (what the console script runs) on the
    shipped BMIM/BF4 files; output judged by conservation."""
    d, truth = shipped_files()
    work = os.path.join(_tmp['dir'], 'realcli')
    os.makedirs(work, exist_ok=True)
    sysf = os.path.join(work, 'system_bmimbf4_cg.gro')
    shutil.copy(os.path.join(d, 'system_bmimbf4_cg.gro'), sysf)
    env = dict(os.environ, VERIF_REPO_PATH=core.REPO)
    args = [sysf, '--mol', truth['BMIM']['top_CG'], truth['BMIM']['coor_AA'], truth['BMIM']['top_AA'],
            '--auto', truth['BF4']['top_CG'], truth['BF4']['coor_AA'], truth['BF4']['top_AA'], truth['BMIM']['top_CG'],
            '--scale', '0.4']
    try:
        r = subprocess.run([sys.executable, '-W', 'ignore', '-c', REAL_CLI] + args, env=env, cwd=work, capture_output=True,
                           text=True, timeout=1500)
    except subprocess.TimeoutExpired:
        ctx.inconclusive_because('the real CLI process did not finish within 25 minutes')
        return
    ctx.monitor('real_cli_process')
    ctx.count('evaluations')
    out = os.path.join(work, 'mapped_system_bmimbf4_cg.gro')
    if r.returncode != 0 or not os.path.exists(out):
        ctx.violation('real-cli-failed', f'rc={r.returncode}, output present: {os.path.exists(out)}; stderr tail: {r.stderr[-300:]}')
        return
    res = ref.ref_gro_read(out)
    src = ref.ref_gro_read(sysf)
    n_bmim = sum(1 for rec in src['records'] if rec[1] == 'BMIM') // 3
    n_bf4 = sum(1 for rec in src['records'] if rec[1] == 'BF4')
    want = n_bmim * 25 + n_bf4 * 5
    if res['natoms'] != want:
        ctx.violation('real-cli-atom-total', f'{res["natoms"]} atoms, expected {want}')
    if res['title'] != src['title'] or np.abs(res['box'] - src['box']).max() > 5e-6:
        ctx.violation('real-cli-title-or-box', f'{res["title"]!r} / {res["box"].tolist()}')
    if [rec[3] for rec in res['records']] != [(k + 1) % 100000 for k in range(res['natoms'])]:
        ctx.violation('real-cli-atom-numbers', 'atom numbers are not consecutive from 1')
    # order of molecules follows the input (BF4 block first, then BMIM)
    seq_in = []
    for rec in src['records']:
        if not seq_in or seq_in[-1] != (rec[0], rec[1]):
            seq_in.append((rec[0], rec[1]))
    seq_out = []
    for rec in res['records']:
        if not seq_out or seq_out[-1] != (rec[0], rec[1]):
            seq_out.append((rec[0], rec[1]))
    if seq_in != seq_out:
        ctx.violation('real-cli-molecule-order', 'sequence of (residue number, residue name) differs between input and output')
    ctx.nontrivial(('real-cli',))
    ctx.sample({'real cli': 'system_bmimbf4_cg.gro --mol BMIM... --auto BF4... --scale 0.4', 'atoms_out': res['natoms'], 'wall_note': 'unseeded, full STEPS_FACTOR'})


def run_case(ctx, case):
    {'world': run_world, 'shipped-discovery': run_shipped_discovery, 'real-cli': run_real_cli}[case['kind']](ctx, case)
