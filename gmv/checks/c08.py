"""
C08 - the overlap measure (chi2) equals its reference definition.

Deciding monitor: a proxy class installed at both call-time names of
Chi2Calculator; every evaluation of the real calculator is compared with the
loop-based ref.ref_chi2 on the same arguments.  Metamorphic relations (common
rigid motion, consistent relabelling) are differential runs through the same
proxy.  Which of the three internal paths served the calls is observed by line
coverage of the three methods.
"""
import numpy as np

from .. import bus, core, cover, gen, ref

LEVEL = 'exploration'
JOBS = {'quick': 2, 'thorough': 16}
REQUIRED_MONITORS = ('chi2_reference', 'chi2_rigid_motion', 'chi2_relabel')
REQUIRED_CLASSES = ('fixed-array:dtype-float32', 'fixed-array:dtype-int64', 'fixed-array:dtype-int32', 'recovery:wrong-sized-call-then-used-again', 'restraint-array:refilled-by-the-caller-afterwards', 'calculator:pickle', 'place:coincident', 'place:far-from-origin', 'place:far-from-origin-aligned', 'mobile-array:same-object-overwritten', 'mobile-array:strided-or-fortran', 'restr:none', 'restr:partial', 'restr:all-fixed', 'restr:dup-fixed', 'restr:dup-mobile',
                    'penalty:k>0', 'penalty:k=0', 'embedded:mc')
RULE = ('calculators over (fixed size 1..40, mobile size 1..25, restraint class, placement class); each is '
        'evaluated on 4 configurations different from the construction one. Non-trivial: at least two mobile '
        'atoms or a restraint; distinct = distinct (n_fixed, n_mobile, restraint class, placement class, k>0)')
ASSUMPTIONS = [
    'coordinates finite, generated continuously: exact ties for "nearest" have measure zero; evaluations whose '
    'nearest/second-nearest gap is below 1e-9 relative are counted and skipped',
    'restraint lists contain no identical pair twice (duplicated fixed or mobile atoms are generated)',
    'tolerance 1e-9 relative',
]
_cov = cover.Coverage()
_state = {}


def install_proxy(ctx):
    def make(Real):
        class Chi2Calculator:          # noqa  (same public name on purpose)
            __gmv_original__ = Real

            def __init__(self, *args, **kwargs):
                mol1, mol2, restrictions = bus.seen(('mol1', 'mol2', 'restrictions'), args, kwargs)
                self._gmv_fixed = np.array(mol1, float, copy=True)
                self._gmv_restr = None if restrictions is None else [tuple(int(x) for x in r) for r in np.asarray(restrictions).reshape(-1, 2)] if len(restrictions) else []
                self._gmv_real = Real(*args, **kwargs)

            def __call__(self, *args, **kwargs):
                mol2, = bus.seen(('mol2',), args, kwargs)
                value = self._gmv_real(*args, **kwargs)
                try:
                    with bus.neutral():
                        every = _state.get('sample_every', 1)
                        _state['n'] = _state.get('n', 0) + 1
                        if _state['n'] % every == 0:
                            judge(ctx, self._gmv_fixed, np.asarray(mol2, float), self._gmv_restr, value)
                except Exception as exc:  # noqa
                    ctx.violation('monitor-error:chi2', repr(exc))
                return value

            def __getattr__(self, name):
                return getattr(self.__dict__['_gmv_real'], name)
        return Chi2Calculator
    bus.install('Chi2Calculator', make)


def judge(ctx, fixed, mobile, restr, value):
    want, margin = ref.ref_chi2(fixed, mobile, restr)
    if margin < 1e-9:
        ctx.count('skipped_nearest_tie')
        return
    ctx.monitor('chi2_reference')
    w = {'fixed': fixed, 'mobile': mobile, 'restraints': restr, 'library': float(value), 'reference': want}
    if not np.isfinite(value):
        ctx.violation('chi2-nonfinite', f'chi2 = {value}', witness=w)
        return
    if value < 0:
        ctx.violation('chi2-negative', f'chi2 = {value}', witness=w)
    # floating-point floor of the definition itself: every squared distance is built from coordinate differences whose
    # absolute error is about eps * |coordinates|  (matters only for sets placed far from the origin)
    maxabs = max(float(np.abs(fixed).max()), float(np.abs(mobile).max()))
    floor = 64 * 2.2e-16 * maxabs * (abs(want) * (len(fixed) + len(restr or []))) ** 0.5
    if abs(float(value) - want) > 1e-9 * max(abs(want), 1e-300) + floor:
        nres = len(restr or [])
        nf = len(fixed)
        rf = len({i for i, _ in (restr or [])})
        path = 'none' if nres == 0 else ('all-fixed' if rf == nf else 'partial')
        ctx.violation(f'chi2-differs-from-definition:{path}',
                      f'library {float(value):.12g} != reference {want:.12g} ({nf} fixed, {len(mobile)} mobile, {nres} restraints)',
                      witness=w)


def setup(ctx):
    import gaddlemaps._backend as be
    for name in ('chi2_molecules', '_chi2_molecules_with_restrains', '_chi2_molecules_only_restrains',
                 '_chi2_molecules_restrains_contrib', '__init__'):
        f = getattr(be.Chi2Calculator, name, None)
        if f is not None:
            _cov.watch(f)
    _cov.start()
    install_proxy(ctx)


def teardown(ctx):
    _cov.stop()
    ctx.take_coverage(_cov)


def cases(ctx):
    n = 2400 if ctx.tier == 'quick' else 500000
    for b in range(n // 20):
        yield {'kind': 'calc', 'batch': b}
    for b in range(6 if ctx.tier == 'quick' else 1000):
        yield {'kind': 'emb', 'batch': b}


RESTR = ['none', 'none-empty-list', 'partial', 'all-fixed', 'dup-fixed', 'dup-mobile', 'single', 'all-fixed-dup', 'mobile-in-order',
         'mobile-in-order-all-fixed']
PLACE = ['overlap', 'far', 'cluster', 'lattice-jitter', 'far-from-origin', 'far-from-origin-aligned', 'coincident']


def gen_restraints(rng, cls, nf, nm):
    if cls == 'none':
        return None
    if cls == 'none-empty-list':
        return []
    pairs = set()
    if cls == 'single':
        pairs.add((int(rng.integers(0, nf)), int(rng.integers(0, nm))))
    elif cls == 'partial':
        k = int(rng.integers(1, max(2, nf)))
        for i in rng.choice(nf, size=min(k, nf), replace=False):
            pairs.add((int(i), int(rng.integers(0, nm))))
        if len({i for i, _ in pairs}) == nf and nf > 1:
            pairs.pop()
    elif cls in ('all-fixed', 'all-fixed-dup'):
        for i in range(nf):
            pairs.add((i, int(rng.integers(0, nm))))
        if cls == 'all-fixed-dup' and nm > 1:
            for _ in range(int(rng.integers(1, 4))):
                pairs.add((int(rng.integers(0, nf)), int(rng.integers(0, nm))))
    elif cls == 'dup-fixed':
        i = int(rng.integers(0, nf))
        for j in rng.choice(nm, size=min(nm, int(rng.integers(2, 4))), replace=False):
            pairs.add((i, int(j)))
        for _ in range(int(rng.integers(0, 3))):
            pairs.add((int(rng.integers(0, nf)), int(rng.integers(0, nm))))
    elif cls == 'dup-mobile':
        j = int(rng.integers(0, nm))
        for i in rng.choice(nf, size=min(nf, int(rng.integers(2, 4))), replace=False):
            pairs.add((int(i), j))
    if cls.startswith('mobile-in-order'):
        # the mobile column of the list is a consecutive ascending run (0, 1, ..., or a stretch of it), listed in that order
        lo = 0 if rng.random() < 0.6 else int(rng.integers(0, max(1, nm - 1)))
        hi = nm if rng.random() < 0.7 else int(rng.integers(lo + 1, nm + 1))
        if cls.endswith('all-fixed') and hi - lo >= nf:
            fixed = [int(x) for x in rng.permutation(nf)] + [int(rng.integers(0, nf)) for _ in range(hi - lo - nf)]
        else:
            fixed = [int(rng.integers(0, nf)) for _ in range(hi - lo)]
        return [(fixed[k], lo + k) for k in range(hi - lo)]
    pairs = list(pairs)
    order = rng.permutation(len(pairs))
    return [pairs[k] for k in order]


def place(rng, cls, nf, nm):
    if cls == 'overlap':
        return rng.normal(size=(nf, 3)), rng.normal(size=(nm, 3))
    if cls == 'far':
        return rng.normal(size=(nf, 3)), rng.normal(size=(nm, 3)) + rng.normal(size=3) * 50
    if cls.startswith('far-from-origin'):
        # both sets together somewhere far from the origin (box-scale to 1e4 nm); 'aligned': the mobile atoms sit almost
        # on fixed atoms, so the measure is small compared with the coordinates
        f = rng.normal(size=(nf, 3))
        if cls.endswith('aligned'):
            m = f[rng.integers(0, nf, nm)] + rng.normal(size=(nm, 3)) * 10.0 ** rng.uniform(-2, -1)
        else:
            m = rng.normal(size=(nm, 3))
        d = rng.normal(size=3)
        off = d / np.linalg.norm(d) * 10.0 ** rng.uniform(2, 4)
        return f + off, m + off
    if cls == 'coincident':
        # some mobile atoms sit exactly (bit for bit) on fixed atoms: squared distances that are exactly zero
        f, m = rng.normal(size=(nf, 3)), rng.normal(size=(nm, 3)) * 1.5
        for j in rng.choice(nm, size=min(nm, int(rng.integers(1, 4))), replace=False):
            m[j] = f[int(rng.integers(0, nf))]
        return f, m
    if cls == 'cluster':
        # mobile atoms bunched together: many of them are nearest to nobody (k > 0)
        return rng.normal(size=(nf, 3)) * 3, rng.normal(size=(nm, 3)) * 0.05 + rng.normal(size=3)
    f = rng.integers(-3, 4, size=(nf, 3)).astype(float) + rng.normal(size=(nf, 3)) * 1e-3
    m = rng.integers(-3, 4, size=(nm, 3)).astype(float) + rng.normal(size=(nm, 3)) * 1e-3
    return f, m


def classify_restr(restr, nf):
    if not restr:
        return 'none'
    fixed_side = [i for i, _ in restr]
    mob_side = [j for _, j in restr]
    out = ['all-fixed' if len(set(fixed_side)) == nf else 'partial']
    if len(set(fixed_side)) < len(fixed_side):
        out.append('dup-fixed')
    if len(set(mob_side)) < len(mob_side):
        out.append('dup-mobile')
    return out


def run_calc(ctx, case):
    import gaddlemaps
    rng = ctx.rng('calc', case['batch'])
    _state['sample_every'] = 1
    for it in range(20):
        nf, nm = int(rng.integers(1, 41)), int(rng.integers(1, 26))
        if rng.random() < 0.15:
            nf = int(rng.integers(1, 4))
        if rng.random() < 0.15:
            nm = int(rng.integers(1, 3))
        rcls = RESTR[int(rng.integers(0, len(RESTR)))]
        pcls = PLACE[int(rng.integers(0, len(PLACE)))]
        restr = gen_restraints(rng, rcls, nf, nm)
        fixed, mobile0 = place(rng, pcls, nf, nm)
        if it % 7 == 4:
            # the fixed coordinate set arrives in another number type (single precision as trajectory readers give it,
            # integers as a lattice builder gives it); the mobile set stays double, so the definition is evaluated in
            # double precision on exactly these values (the reference converts the fixed values losslessly)
            fdt = [np.float32, np.int64, np.int32][(it // 7 + case['batch']) % 3]
            fixed = (fixed if fdt is np.float32 else np.round(fixed)).astype(fdt)
            ctx.hit('fixed-array:dtype-' + np.dtype(fdt).name)
        form = int(rng.integers(0, 3))
        arg = restr
        if restr:
            arg = [restr, np.array(restr, dtype=[np.intp, np.int64, np.int32][it % 3]), [list(p) for p in restr]][form]
        Calc = gaddlemaps.Chi2Calculator            # the proxy
        try:
            calc = Calc(fixed, mobile0, arg)
        except Exception as exc:  # noqa
            ctx.violation(f'chi2-constructor-raises:{type(exc).__name__}', str(exc),
                          witness={'fixed': fixed, 'mobile': mobile0, 'restraints': restr})
            continue
        classes = classify_restr(restr, nf)
        for c in ([classes] if isinstance(classes, str) else classes):
            ctx.hit('restr:' + c)
        if restr and form == 1:
            # the caller's restraint array is a work buffer: it is refilled (for the next calculator) while this calculator
            # is still in use; the measure is defined by the restraints the calculator was given
            arg[:, 1] = np.roll(arg[:, 1], 1)
            arg[0] = ((int(arg[0, 0]) + 1) % nf, (int(arg[0, 1]) + 1) % nm)
            ctx.hit('restraint-array:refilled-by-the-caller-afterwards')
            arg = np.array(restr)          # (later calculators of this case get the restraints themselves again)
        if it % 5 == 3:
            # something goes wrong and is handled: the calculator is called with a coordinate set of the wrong size by a
            # caller that runs with warnings as errors; whatever that call does (an exception, a number), the calculator
            # is used again afterwards with proper input and is judged on that
            wrong = rng.normal(size=(nm + int(rng.choice([1, 2, 5])), 3)) if rng.random() < 0.7 or nm == 1 else rng.normal(size=(nm - 1, 3))
            try:
                with core.settings('warnings-as-errors'):
                    calc._gmv_real(wrong)
            except Exception:  # noqa
                pass
            ctx.hit('recovery:wrong-sized-call-then-used-again')
        fixed_before = fixed.copy()
        buf = np.empty((nm, 3))
        reuse = it % 2 == 1         # every evaluation passes the same array object, overwritten in place (as the search loop may)
        for ev in range(4):
            mobile = place(rng, pcls, nf, nm)[1] if ev else mobile0 + rng.normal(size=(nm, 3)) * 0.3
            if pcls.startswith('far-from-origin') and ev:
                # stay with the fixed set, wherever it is
                if pcls.endswith('aligned'):
                    mobile = fixed[rng.integers(0, nf, nm)] + rng.normal(size=(nm, 3)) * 10.0 ** rng.uniform(-2, -1)
                else:
                    mobile = fixed.mean(axis=0) + rng.normal(size=(nm, 3))
            elif pcls == 'far-from-origin-aligned':
                mobile = mobile0 + rng.normal(size=(nm, 3)) * 0.01
            if pcls == 'coincident':
                mobile = rng.normal(size=(nm, 3)) * 1.5
                for j in rng.choice(nm, size=min(nm, int(rng.integers(1, 4))), replace=False):
                    mobile[j] = fixed[int(rng.integers(0, nf))]
            if reuse:
                buf[:] = mobile
                val = calc(buf)
                ctx.hit('mobile-array:same-object-overwritten')
                if not np.array_equal(buf, mobile):
                    ctx.violation('chi2-modified-mobile-array', 'the calculator changed the coordinate array it evaluated')
            elif it % 4 == 2:
                big = np.zeros((nm, 6))
                big[:, ::2] = mobile
                val = calc(big[:, ::2] if ev % 2 else np.asfortranarray(mobile))
                ctx.hit('mobile-array:strided-or-fortran')
            else:
                val = calc(mobile)
            ctx.count('evaluations')
            if ev == 1 and it % 3 == 0:
                import copy
                import pickle
                real = calc.__dict__['_gmv_real']
                import gaddlemaps._backend as be

                def by_pickle():
                    # (pickle looks the class up by name: the monitor proxy steps aside for the round trip)
                    with bus.patched(be, 'Chi2Calculator', type(real)):
                        return pickle.loads(pickle.dumps(real))
                for label, clone in (('pickle', by_pickle), ('deepcopy', lambda: copy.deepcopy(real))):
                    try:
                        twin = clone()
                    except Exception:  # noqa
                        ctx.count(f'calculator_{label}_not_supported')
                        continue
                    v2 = twin(mobile)
                    ctx.monitor('chi2_clone')
                    ctx.hit('calculator:' + label)
                    if not (v2 == val):
                        ctx.violation(f'chi2-differs-after-{label}', f'{val!r} from the calculator, {v2!r} from its {label} clone',
                                      witness={'fixed': fixed, 'mobile': mobile, 'restraints': restr})
            want, margin = ref.ref_chi2(fixed, mobile, restr)
            if margin < 1e-9:
                continue
            # k > 0 ?
            base, _ = ref_no_penalty(fixed, mobile, restr)
            kpos = want > base * (1 + 1e-12) if base > 0 else False
            ctx.hit('penalty:k>0' if kpos else 'penalty:k=0')
            ctx.hit('place:' + pcls)
            if nm >= 2 or restr:
                ctx.nontrivial((nf, nm, rcls, pcls, kpos))
            # common rigid motion, calculator rebuilt on the moved fixed set
            R, t = gen.random_rotation(rng), rng.normal(size=3) * 20
            calc2 = Calc(fixed @ R.T + t, mobile0 @ R.T + t, arg)
            v2 = calc2(mobile @ R.T + t)
            ctx.monitor('chi2_rigid_motion')
            maxabs = max(float(np.abs(fixed).max()), float(np.abs(mobile).max()), float(np.abs(t).max()))
            floor = 64 * 2.2e-16 * maxabs * (abs(val) * (nf + len(restr or []))) ** 0.5 \
                + (64 * 2.2e-16 * maxabs) ** 2 * (nf + len(restr or []))        # (distances that are exactly zero before the motion)
            if abs(v2 - val) > 1e-9 * max(abs(val), 1e-300) + 2 * floor and margin > 1e-6:
                ctx.violation('chi2-not-rigid-invariant', f'{val:.12g} -> {v2:.12g} under a common rigid motion',
                              witness={'fixed': fixed, 'mobile': mobile, 'restraints': restr, 'R': R, 't': t})
            # consistent relabelling
            pf, pm = rng.permutation(nf), rng.permutation(nm)
            inv_f, inv_m = np.argsort(pf), np.argsort(pm)
            r3 = None if restr is None else [(int(inv_f[i]), int(inv_m[j])) for i, j in restr]
            calc3 = Calc(fixed[pf], mobile0[pm], r3)
            v3 = calc3(mobile[pm])
            ctx.monitor('chi2_relabel')
            if abs(v3 - val) > 1e-9 * max(abs(val), 1e-300) + 2 * floor:
                ctx.violation('chi2-not-relabel-invariant', f'{val:.12g} -> {v3:.12g} under consistent relabelling',
                              witness={'fixed': fixed, 'mobile': mobile, 'restraints': restr, 'perm_fixed': pf, 'perm_mobile': pm})
            if it == 0 and ev == 1 and case['batch'] < 3:
                ctx.sample({'fixed': fixed, 'mobile': mobile, 'restraints': restr, 'library': float(val), 'reference': want})
        if not np.array_equal(fixed, fixed_before):
            ctx.violation('chi2-modified-fixed-array', 'the calculator changed the fixed coordinate array')


def ref_no_penalty(fixed, mobile, restr):
    """reference value with k forced to 0 (to classify whether the penalty was active)"""
    total, _ = ref.ref_chi2(fixed, mobile, restr)
    # recompute k
    used = {j for _, j in (restr or [])}
    rf = {i for i, _ in (restr or [])}
    for i, f in enumerate(fixed):
        if i in rf:
            continue
        d = ((mobile - f) ** 2).sum(axis=1)
        used.add(int(d.argmin()))
    k = len(mobile) - len(used)
    return total / (1.1 ** k), k


def run_emb(ctx, case):
    """The evaluations the Monte-Carlo engine makes (1 in 5 judged)."""
    import gaddlemaps
    rng = ctx.rng('emb', case['batch'])
    _state['sample_every'] = 5
    n = int(rng.integers(2, 20))
    edges = gen.random_tree(rng, n)
    mob = gen.make_molecule('MOB', gen.atom_names(n, 'B'), edges, gen.embed_graph(rng, n, edges))
    nf = int(rng.integers(n, 40))
    fixed = gen.random_positions(rng, nf)
    rcls = RESTR[int(rng.integers(0, len(RESTR)))]
    restr = gen_restraints(rng, rcls, nf, n) or []
    np.random.seed(ctx.libseed('emb', case['batch']))
    gaddlemaps.minimize_molecules(fixed, mob.atoms_positions, mob.geometric_center, 0.5,
                                  int(rng.integers(30, 150)), restr, mob.bonds_distance, 0.3, (0, 1, 2))
    _state['sample_every'] = 1
    ctx.count('evaluations')
    ctx.hit('embedded:mc')


def run_case(ctx, case):
    {'calc': run_calc, 'emb': run_emb}[case['kind']](ctx, case)


def finalize(ctx):
    # all three internal paths must have been entered (when they exist under these names)
    for label, v in ctx.lines.items():
        if any(s in label for s in ('chi2_molecules', '_with_restrains', '_only_restrains')) and not v['hit']:
            ctx.inconclusive_because(f'internal path {label} never executed')
