"""
C18 - copies are isolated, views write through, rigid operations preserve shape.

Deciding monitor: history monitor with shadow state.  A pool of live objects
(AtomGro, Residue, single- and multi-residue Molecule; built in memory, loaded
from shipped files, handed out by a System, stored by an Alignment) is driven
through random operation histories; every object has a shadow record (plain
numpy arrays and lists) that is updated by an independent model of each
operation; after every operation *all* objects are compared with their
shadows.
"""
import os

import numpy as np

from .. import core, cover, gen

LEVEL = 'exploration'
JOBS = {'quick': 4, 'thorough': 16}
REQUIRED_MONITORS = ('shadow_comparison', 'rigid_operation')
REQUIRED_CLASSES = ('obj:AtomGro', 'obj:Residue', 'obj:Molecule', 'obj:Molecule-multi-residue', 'src:system', 'system:one-of-two-on-a-shared-handle', 'op:move-far', 'settings:warnings-as-errors', 'src:alignment',
                    'src:shipped', 'op:copy', 'op:deep_copy', 'op:move', 'op:move_to', 'op:rotate', 'op:set-positions',
                    'op:set-velocities', 'op:set-velocities-none', 'op:set-ids', 'op:set-resids', 'op:view-index',
                    'op:view-iterate', 'op:view-inplace', 'op:shared-array', 'op:rename-deep-copy', 'op:atoms-property',
                    'src:alignment-reassigned', 'copy:with-residues-still-in-use', 'molecule:residues-sharing-a-number', 'assign:int64', 'assign:strided', 'assign:fortran', 'assign:whole-residue-through-views')
RULE = ('operation histories (<= 40 operations over <= 8 live objects) drawn from {copy, deep_copy, move, move_to, rotate, '
        'set positions/velocities(None)/atom numbers/residue numbers, view assignment by index and by iteration, the same '
        'ndarray handed to two setters, rename on deep copies, mutate what the atoms property returned}. Non-trivial: the '
        'history contains a copy followed by a mutation of the copy or of its source. distinct = distinct operation-kind '
        'sequences x object kinds')
ASSUMPTIONS = [
    'shallow copies share atom names and residue labels with their source by documented design: names/labels are compared only for deep copies',
    'rotations are proper rotations from an independent generator; tolerance 1e-9 on computed positions, bitwise on everything that must not change',
    'residue numbers are observed through the resids / resid properties (coordinate-file side)',
]
_cov = cover.Coverage()
_cache = {}


def setup(ctx):
    from gaddlemaps.components import Residue, AtomGro, Molecule
    for cls, names in ((Residue, ('move', 'move_to', 'rotate', 'copy')), (AtomGro, ('copy',)),
                       (Molecule, ('copy', 'deep_copy', '__init__', '__getitem__', '__iter__'))):
        for name in names:
            _cov.watch_attr(cls, name, f'{cls.__name__}.{name}')
    _cov.watch(Residue.atoms.fget, 'Residue.atoms')
    _cov.watch(Molecule.atoms.fget, 'Molecule.atoms')
    _cov.start()


def teardown(ctx):
    _cov.stop()
    ctx.take_coverage(_cov)


def cases(ctx):
    n = 500 if ctx.tier == 'quick' else 300000
    for i in range(n):
        yield {'i': i}


# ---------------------------------------------------------------------------
# shadows

def kind_of(obj):
    from gaddlemaps.components import Residue, AtomGro, Molecule
    if isinstance(obj, Molecule):
        return 'Molecule'
    if isinstance(obj, Residue):
        return 'Residue'
    if isinstance(obj, AtomGro):
        return 'AtomGro'
    return type(obj).__name__


def observe(obj):
    k = kind_of(obj)
    if k == 'AtomGro':
        return {'pos': np.array([obj.position], float), 'vel': None if obj.velocity is None else np.array([obj.velocity], float),
                'ids': [obj.atomid], 'resids': [obj.resid], 'names': [obj.name], 'resnames': [obj.resname]}
    vel = obj.atoms_velocities
    if k == 'Molecule':
        resids = [a.gro_resid for a in obj]
    else:
        resids = [a.resid for a in obj]
    return {'pos': np.array(obj.atoms_positions, float), 'vel': None if vel is None else np.array(vel, float),
            'ids': list(obj.atoms_ids), 'resids': resids, 'names': [a.name for a in obj], 'resnames': [a.resname for a in obj]}


def shadow_copy(sh):
    return {'pos': sh['pos'].copy(), 'vel': None if sh['vel'] is None else sh['vel'].copy(), 'ids': list(sh['ids']),
            'resids': list(sh['resids']), 'names': list(sh['names']), 'resnames': list(sh['resnames'])}


def differs(obs, sh, tol, names):
    if obs['pos'].shape != sh['pos'].shape or np.abs(obs['pos'] - sh['pos']).max() > tol:
        return 'coordinates'
    if (obs['vel'] is None) != (sh['vel'] is None):
        return 'velocities'
    if obs['vel'] is not None and np.abs(obs['vel'] - sh['vel']).max() > tol:
        return 'velocities'
    if obs['ids'] != sh['ids']:
        return 'atom-numbers'
    if obs['resids'] != sh['resids']:
        return 'residue-numbers'
    if names and (obs['names'] != sh['names'] or obs['resnames'] != sh['resnames']):
        return 'names'
    return None


# ---------------------------------------------------------------------------
# sources of objects

def shipped_molecule(rng):
    import gaddlemaps
    from gaddlemaps.components import Molecule
    d = os.path.join(os.path.dirname(gaddlemaps.__file__), 'data')
    g, t = [('BMIM_AA.gro', 'BMIM_AA.itp'), ('BF4_AA.gro', 'BF4_AA.itp'), ('CUR_map.gro', 'CUR_CG.itp'),
            ('Protein_CG.gro', 'Protein_CG.itp')][int(rng.integers(0, 4))]
    key = (g, t)
    if key not in _cache:
        _cache[key] = Molecule.from_files(os.path.join(d, g), os.path.join(d, t))
    return _cache[key].deep_copy()


def system_molecule(rng, ctx=None):
    """A molecule handed out by a System: one built on paths, or one of two Systems built on ONE open coordinate handle
    (the caller rewound it in between) that are used in turn - often for the molecule right after the one that System
    handed out last, with the other System's reads in between."""
    import gaddlemaps
    from gaddlemaps.components import System
    d = os.path.join(os.path.dirname(gaddlemaps.__file__), 'data')
    if 'system' not in _cache:
        gro, t1, t2 = (os.path.join(d, f) for f in ('system_bmimbf4_cg.gro', 'BMIM_CG.itp', 'BF4_CG.itp'))
        s0 = System(gro, t1, t2)
        fh = open(gro)
        sa = System(fh, t1, t2)
        fh.seek(0)
        sb = System(fh, t2, t1)
        _cache['system'] = [s0, sa, sb]
        _cache['handle'] = fh
        _cache['last'] = [None, None, None]
        _cache['truth'] = [(m.name, np.array(m.atoms_positions), list(m.atoms_ids)) for m in s0]
    which = int(rng.integers(0, 3))
    s = _cache['system'][which]
    last = _cache['last'][which]
    k = int(rng.integers(0, len(s)))
    if last is not None and last + 1 < len(s) and rng.random() < 0.6:
        k = last + 1
    _cache['last'][which] = k
    m = s[k]
    if ctx is not None:
        ctx.hit('system:on-paths' if which == 0 else 'system:one-of-two-on-a-shared-handle')
        name, pos, ids = _cache['truth'][k]
        if m.name != name or not np.array_equal(np.array(m.atoms_positions), pos) or list(m.atoms_ids) != ids:
            ctx.violation('system-hands-out-another-molecule', f'System[{k}] (system {which} of [paths, shared handle A, shared handle B]) is not '
                          f'molecule {k} of the file')
    return s, k, m


_flags = []


def memory_molecule(rng, multi):
    n = int(rng.integers(2, 12))
    edges = gen.random_tree(rng, n)
    pos = gen.embed_graph(rng, n, edges)
    vel = rng.normal(size=(n, 3)) if rng.random() < 0.5 else None
    ids = [int(x) for x in rng.integers(1, 5000, n)]
    if multi and n >= 2:
        nres = int(rng.integers(2, min(n, 4) + 1))
        cuts = sorted(int(x) for x in rng.choice(np.arange(1, n), nres - 1, replace=False))
        rid = [int(r) + 1 for r in np.searchsorted(cuts, np.arange(n), side='right')]
        rn = ['RA', 'RB', 'RC', 'RD']
        names = [rn[r - 1] for r in rid]
        if rng.random() < 0.4:
            # neighbouring residues under one residue number (different names keep them apart), other numbers arbitrary
            nums = [int(rng.integers(1, 900))]
            for _ in range(nres - 1):
                nums.append(nums[-1] if rng.random() < 0.6 else nums[-1] + int(rng.integers(1, 4)))
            rid = [nums[r - 1] for r in rid]
            _flags.append('molecule:residues-sharing-a-number')
        return gen.make_molecule('MEM', gen.atom_names(n, 'A'), edges, pos, resnames=names, resids=rid, vel=vel, atomids=ids)
    return gen.make_molecule('MEM', gen.atom_names(n, 'A'), edges, pos, vel=vel, atomids=ids)


# ---------------------------------------------------------------------------

def represent(ctx, rng, arr, force=None):
    """The same coordinates in one of the array forms a caller may hand to a setter: float64 (usual), integer arrays
    (integer-valued coordinates, as in `atom.position = np.array((2, 3, 5))`), non-contiguous views.
    Returns (exact float64 value, array to assign)."""
    kind = force or ['float64', 'float64', 'float64', 'int64', 'int32', 'strided', 'fortran'][int(rng.integers(0, 7))]
    if kind in ('int64', 'int32'):
        val = np.rint(arr * 2).astype(kind)
    elif kind == 'strided':
        big = np.zeros(arr.shape[:-1] + (6,))
        big[..., ::2] = arr
        val = big[..., ::2]
    elif kind == 'fortran':
        val = np.asfortranarray(arr.copy())
    else:
        val = arr.copy()
    ctx.hit('assign:' + kind)
    return np.array(val, dtype=float), val


def run_case(ctx, case):
    from gaddlemaps import Alignment
    i = case['i']
    rng = ctx.rng('hist', i)
    objs = []      # dict(obj, shadow, deep (names isolated), label)
    history = []
    kinds = []
    system_ref = None

    def add(obj, label, deep):
        objs.append({'obj': obj, 'shadow': observe(obj), 'deep': deep, 'label': label})
        k = kind_of(obj)
        ctx.hit('obj:' + k)
        if k == 'Molecule' and len(obj.residues) > 1:
            ctx.hit('obj:Molecule-multi-residue')

    src = ['memory', 'memory-multi', 'shipped', 'system', 'alignment', 'residue', 'atom'][i % 7]
    if src == 'memory':
        add(memory_molecule(rng, False), 'memory molecule', True)
    elif src == 'memory-multi':
        add(memory_molecule(rng, True), 'memory multi-residue molecule', True)
    elif src == 'shipped':
        add(shipped_molecule(rng), 'shipped molecule', True)
        ctx.hit('src:shipped')
    elif src == 'system':
        s, k, m = system_molecule(rng, ctx)
        system_ref = (s, k, observe(m))
        add(m, f'System[{k}]', False)
        ctx.hit('src:system')
    elif src == 'alignment':
        m = memory_molecule(rng, rng.random() < 0.5)
        add(m, 'molecule given to Alignment', True)
        if rng.random() < 0.5:
            ali = Alignment(start=m)
            add(ali.start, 'Alignment.start', False)
        else:
            # a complete alignment (both molecules set) whose start / end is assigned again with another conformation of
            # the same molecule: the object stored is again an isolated copy of what the user handed over
            other = memory_molecule(rng, rng.random() < 0.5)
            ali = Alignment(m, other)
            again = m.copy()
            again.move(rng.normal(size=3))
            add(again, 'molecule assigned again to a complete Alignment', False)
            if rng.random() < 0.5:
                ali.start = again
                add(ali.start, 'Alignment.start after re-assignment', False)
            else:
                ali.end = other
                ali.start = again
                ali.end = other
                add(other, 'molecule assigned again as end', False)
                add(ali.end, 'Alignment.end after re-assignment', False)
            ctx.hit('src:alignment-reassigned')
        ctx.hit('src:alignment')
    elif src == 'residue':
        m = memory_molecule(rng, True)
        add(m.residues[0].copy(), 'residue', True)
        add(m, 'molecule the residue came from', True)
    else:
        m = memory_molecule(rng, False)
        add(m[0].atom_gro.copy(), 'atom', True)
    ctx.count('evaluations')
    while _flags:
        ctx.hit(_flags.pop())
    nops = int(rng.integers(10, 41))
    copied = False
    nontrivial = False
    OPS = ['copy', 'deep_copy', 'move', 'move_to', 'rotate', 'set-positions', 'set-velocities', 'set-velocities-none',
           'set-ids', 'set-resids', 'view-index', 'view-iterate', 'shared-array', 'rename-deep-copy', 'atoms-property',
           'new-molecule-from-residues', 'view-inplace', 'move-far']
    # the caller may run with warnings turned into errors: the unchanged classes do all of this without a word
    caller = core.next_settings(ctx, ('default', 'warnings-as-errors'))
    _settings_cm = core.settings(caller)
    _settings_cm.__enter__()
    for step in range(nops):
        t = int(rng.integers(0, len(objs)))
        e = objs[t]
        obj, sh = e['obj'], e['shadow']
        k = kind_of(obj)
        n = len(sh['pos'])
        op = OPS[int(rng.integers(0, len(OPS)))]
        tol = 0.0
        try:
            if op == 'copy':
                if len(objs) >= 8:
                    continue
                if k == 'Molecule' and rng.random() < 0.35:
                    # the documented new_residues argument, fed with residues that stay in use elsewhere (the molecule's
                    # own, or those of another copy): the new molecule is isolated all the same
                    how = int(rng.integers(0, 3))
                    src_res = obj.residues if how < 2 else list(obj.copy().residues)
                    new = obj.copy(src_res) if how != 1 else obj.copy(new_residues=list(src_res))
                    ctx.hit('copy:with-residues-still-in-use')
                else:
                    new = obj.copy()
                add(new, f'copy of #{t}', e['deep'] and k != 'Molecule')
                copied = True
            elif op == 'deep_copy':
                if k != 'Molecule' or len(objs) >= 8:
                    continue
                add(obj.deep_copy(), f'deep copy of #{t}', True)
                copied = True
            elif op == 'move':
                if k == 'AtomGro':
                    continue
                d = rng.normal(size=3) * 10.0 ** rng.uniform(-2, 1.5)
                c0 = obj.geometric_center.copy()
                obj.move(d)
                sh['pos'] = sh['pos'] + d
                tol = 1e-9
                ctx.monitor('rigid_operation')
                if np.abs(obj.geometric_center - (c0 + d)).max() > 1e-9:
                    ctx.violation('move-centre-wrong', f'centre moved by {(obj.geometric_center - c0).tolist()} for displacement {d.tolist()}')
            elif op == 'move_to':
                if k == 'AtomGro':
                    continue
                p = rng.normal(size=3) * 20
                c0 = sh['pos'].mean(axis=0)
                obj.move_to(p)
                sh['pos'] = sh['pos'] + (p - c0)
                tol = 1e-9
                ctx.monitor('rigid_operation')
                if np.abs(obj.geometric_center - p).max() > 1e-9:
                    ctx.violation('move_to-centre-wrong', f'centre at {obj.geometric_center.tolist()} instead of {p.tolist()}')
            elif op == 'move-far':
                if k == 'AtomGro' or n < 2:
                    continue
                # re-centred ten thousand nanometres away (or a thousand the other way): the atoms end up on both sides of
                # a power of ten
                p = np.array([float(rng.choice([10000.0, -1000.0, 100000.0])), 0.0, 0.0]) + rng.normal(size=3) * 0.01
                c0 = sh['pos'].mean(axis=0)
                obj.move_to(p)
                sh['pos'] = sh['pos'] + (p - c0)
                tol = 1e-7
                ctx.monitor('rigid_operation')
            elif op == 'rotate':
                if k == 'AtomGro':
                    continue
                R = gen.random_rotation(rng, ['generic', 'tiny', 'nearpi'][int(rng.integers(0, 3))])
                c0 = sh['pos'].mean(axis=0)
                obj.rotate(R)
                sh['pos'] = (sh['pos'] - c0) @ R.T + c0
                tol = 1e-9
                ctx.monitor('rigid_operation')
            elif op == 'set-positions':
                new, val = represent(ctx, rng, rng.normal(size=(n, 3)) * 5)
                if k == 'AtomGro':
                    obj.position = val[0]
                else:
                    obj.atoms_positions = val
                sh['pos'] = new
            elif op in ('set-velocities', 'set-velocities-none'):
                new = None if op.endswith('none') else rng.normal(size=(n, 3))
                if k == 'AtomGro':
                    obj.velocity = None if new is None else new[0].copy()
                else:
                    obj.atoms_velocities = None if new is None else new.copy()
                sh['vel'] = new
            elif op == 'set-ids':
                new = [int(x) for x in rng.integers(1, 90000, n)]
                if k == 'AtomGro':
                    obj.atomid = new[0]
                else:
                    obj.atoms_ids = list(new)
                sh['ids'] = new
            elif op == 'set-resids':
                if k == 'Molecule':
                    nres = len(obj.resids)
                    first = int(rng.integers(1, 9000))
                    new = [first + j for j in range(nres)]
                    sizes = [len(r) for r in obj.residues]
                    obj.resids = list(new)
                    sh['resids'] = [new[j] for j, s in enumerate(sizes) for _ in range(s)]
                elif k == 'Residue':
                    v = int(rng.integers(1, 9000))
                    obj.resid = v
                    sh['resids'] = [v] * n
                else:
                    v = int(rng.integers(1, 9000))
                    obj.resid = v
                    sh['resids'] = [v]
            elif op == 'view-index':
                if k == 'AtomGro':
                    continue
                j = int(rng.integers(0, n))
                if rng.random() < 0.25 and k == 'Molecule' and len(obj.residues) > 1:
                    # every atom of one residue (often the first) re-assigned through views, one dtype for all
                    res = 0 if rng.random() < 0.6 else int(rng.integers(0, len(obj.residues)))
                    start = sum(len(r) for r in obj.residues[:res])
                    idx = list(range(start, start + len(obj.residues[res])))
                    force = ['int64', 'int32'][int(rng.integers(0, 2))]
                    ctx.hit('assign:whole-residue-through-views')
                else:
                    idx, force = [j], None
                for j in idx:
                    v, val = represent(ctx, rng, rng.normal(size=3) * 3, force)
                    obj[j].position = val
                    sh['pos'][j] = v
                if rng.random() < 0.5:
                    aid = int(rng.integers(1, 90000))
                    obj[j].atomid = aid
                    sh['ids'][j] = aid
            elif op == 'view-inplace':
                # read-modify-write through a view (atom.position += v): exposes coordinate arrays
                # shared between a copy and its source.  Not applied while the object holds an
                # array that the history itself handed to a second object.
                if k == 'AtomGro' or e.get('holds_shared_array'):
                    continue
                if any(np.asarray(a.position).dtype != np.float64 for a in obj):
                    continue                      # (float += on an integer array is refused by numpy itself)
                j = int(rng.integers(0, n))
                v = rng.normal(size=3)
                view = obj[j]
                view.position += v
                sh['pos'][j] = sh['pos'][j] + v
                tol = 1e-12
            elif op == 'view-iterate':
                if k == 'AtomGro':
                    continue
                new = rng.normal(size=(n, 3))
                for a, v in zip(obj, new):
                    a.velocity = v.copy()
                sh['vel'] = new
            elif op == 'shared-array':
                # the same ndarray object handed to two objects' setters
                others = [x for x in objs if x is not e and len(x['shadow']['pos']) == n and kind_of(x['obj']) != 'AtomGro']
                if k == 'AtomGro' or not others:
                    continue
                o = others[int(rng.integers(0, len(others)))]
                arr = rng.normal(size=(n, 3)) * 2
                obj.atoms_positions = arr
                o['obj'].atoms_positions = arr
                sh['pos'] = arr.copy()
                o['shadow']['pos'] = arr.copy()
                e['holds_shared_array'] = o['holds_shared_array'] = True
            elif op == 'rename-deep-copy':
                if k != 'Molecule' or not e['deep'] or len(objs) >= 8:
                    continue
                dc = obj.deep_copy()
                j = int(rng.integers(0, n))
                dc[j].name = 'ZZ9'
                dc.resnames = 'QQQ'
                add(dc, f'renamed deep copy of #{t}', True)
                copied = True
            elif op == 'atoms-property':
                if k == 'AtomGro':
                    continue
                atoms = obj.atoms      # documented to be copies
                for a in atoms:
                    a.position = np.array([9e3, 9e3, 9e3])
                    a.velocity = None
                    a.atomid = 77777
            else:
                if k != 'Molecule' or len(objs) >= 8:
                    continue
                from gaddlemaps.components import Molecule
                add(Molecule(obj.molecule_top, obj.residues), f'Molecule built from the residues of #{t}', False)
                copied = True
        except Exception as exc:  # noqa
            ctx.violation(f'operation-raises:{op}:{type(exc).__name__}', f'{op} on {e["label"]} ({k}): {exc}', witness={'history': history})
            break
        if op in ('move', 'move_to', 'move-far', 'rotate', 'set-positions'):
            e['holds_shared_array'] = False

        history.append((op, t))
        kinds.append(op)
        ctx.hit('op:' + op)
        if copied and op not in ('copy', 'deep_copy'):
            nontrivial = True
        # compare every live object with its shadow
        ctx.monitor('shadow_comparison')
        failed = False
        for q, x in enumerate(objs):
            obs = observe(x['obj'])
            loose = tol if q == t or op == 'shared-array' else 0.0
            bad = differs(obs, x['shadow'], loose, names=x['deep'])
            if not bad and loose:
                # computed coordinates were judged to the tolerance; from here on the object must keep exactly these bits
                x['shadow']['pos'] = obs['pos']
                x['shadow']['vel'] = obs['vel']
            if bad:
                who = 'target' if q == t else 'bystander'
                ctx.violation(f'{who}-{bad}-wrong-after:{op}',
                              f'{x["label"]} (#{q}, {kind_of(x["obj"])}) has wrong {bad} after {op} on {e["label"]} (#{t})',
                              witness={'history': history, 'labels': [o['label'] for o in objs]})
                failed = True
                break
        if failed:
            break
        if op in ('move', 'move_to', 'rotate'):
            # shape: all interatomic distances preserved (also across residues)
            p = observe(obj)['pos']
            if len(p) > 1:
                pass  # implied by the position comparison against the rigid model above
    _settings_cm.__exit__(None, None, None)
    if system_ref is not None:
        s, kidx, first = system_ref
        again = observe(s[kidx])
        if differs(again, first, 0.0, names=False):
            ctx.violation('system-molecule-not-isolated', f'System[{kidx}] returns different data after operations on the molecule it handed out',
                          witness={'history': history})
    if nontrivial:
        ctx.nontrivial((tuple(kinds), src))
    if i < 4:
        ctx.sample({'source': src, 'objects': [o['label'] for o in objs], 'history': history[:25]})
