"""
C06 - alignment moves molecules only by structure-preserving transformations.

Deciding monitor: post-condition on Alignment.align_molecules evaluated from
snapshots taken before and after the call (Alignment.start / Alignment.end and
the caller's own Molecule objects), plus a repeated run from the same inputs and
seed that must be bit-identical.
"""
import os

import numpy as np

from .. import bus, core, cover, gen

LEVEL = 'exploration'
JOBS = {'quick': 4, 'thorough': 16}
REQUIRED_MONITORS = ('alignment_postcondition', 'repeat_bit_identical', 'caller_objects_unchanged', 'repeat_in_other_interpreter')
REQUIRED_CLASSES = ('session:stored-molecule-reshaped-in-place', 'mobile:collinear-neighbours', 'session:re-aligned', 'session:molecule-replaced', 'session:multi-residue', 'sizes:start-smaller', 'sizes:start-larger', 'sizes:tie', 'mobile:tree', 'mobile:cyclic',
                    'mobile:one-atom', 'hydrogens:ignored', 'hydrogens:kept', 'restraints:none', 'restraints:some',
                    'types:(0,)', 'types:(1,)', 'types:(2,)', 'types:(0, 1)', 'types:default', 'shipped', 'end:one-atom', 'session:alignment-interrupted-and-object-kept', 'repeat:other-kind-of-stdout')
RULE = ('alignments over (start, end) molecule pairs: sizes 1..40 in both orders and ties, mobile molecule a random tree or a '
        'cyclic graph, shipped pairs; restraint lists empty/partial/full/duplicated; every admissible non-empty subset of '
        'deformation types and the default; ignore_hydrogens on/off with random hydrogens; STEPS_FACTOR in {1,5,50}; >= 2 '
        'seeds per configuration via the repeat. Non-trivial: the mobile molecule has >= 2 atoms and the search accepted at '
        'least one move (mobile coordinates changed beyond a translation). distinct = distinct (sizes, graph kind, types, '
        'hydrogens, restraint class, steps factor)')
ASSUMPTIONS = [
    'the molecule with more atoms has at least one bond and one non-hydrogen atom; the mobile (smaller) molecule is connected',
    'single-atom moves are enabled only when the mobile molecule has at least two atoms',
    'hydrogens are atoms named H<digits>; heavy atoms start with another letter',
    'pure-python engine; tolerance 1e-9 nm on distances, bitwise on "unchanged" and "repeatable"',
]
_cov = cover.Coverage()
TYPES = [None, (0,), (1,), (2,), (0, 1), (0, 2), (1, 2), (0, 1, 2)]


def setup(ctx):
    from gaddlemaps import Alignment
    _cov.watch_attr(Alignment, 'align_molecules', 'Alignment.align_molecules')
    import gaddlemaps._alignment as A
    _cov.watch(A.remove_hydrogens)
    _cov.start()


def teardown(ctx):
    _cov.stop()
    ctx.take_coverage(_cov)


def cases(ctx):
    n = 1000 if ctx.tier == 'quick' else 80000
    for i in range(n):
        yield {'kind': 'gen', 'i': i}
    for i in range(3 if ctx.tier == 'quick' else 30):
        yield {'kind': 'shipped', 'i': i}
    for i in range(120 if ctx.tier == 'quick' else 15000):
        yield {'kind': 'session', 'i': i}


made_fan = []


def make_mol(rng, name, n, cyclic, hydrogens, prefix, fan=False):
    if n == 1:
        edges = []
    elif cyclic and n >= 3:
        edges = gen.random_connected_graph(rng, n, ['ring', 'cyclic'][int(rng.integers(0, 2))])[1]
    else:
        edges = gen.random_tree(rng, n)
    pos = gen.embed_graph(rng, n, edges) if n > 1 else rng.normal(size=(1, 3))
    if fan and n >= 4:
        # idealised geometry: an atom whose bonded atoms all lie on one straight line (a "fan", as typed by hand for a
        # coarse-grained model; axis-parallel half of the time).  Single-atom moves of that atom have no defined direction.
        adj = gen.adjacency(n, edges)
        hubs = [a for a in range(n) if len(adj[a]) >= 3]
        if hubs:
            c = hubs[int(rng.integers(0, len(hubs)))]
            u = np.eye(3)[int(rng.integers(0, 3))] if rng.random() < 0.5 else rng.normal(size=3)
            u = u / np.linalg.norm(u)
            v = np.cross(u, rng.normal(size=3))
            v = 0.25 * v / np.linalg.norm(v)
            for k, nb in enumerate(sorted(adj[c])):
                pos[nb] = pos[c] + v + (k - 1) * 0.2 * u
            if gen.min_pair_distance(pos) < 1e-3:
                pos = gen.embed_graph(rng, n, edges)
            else:
                made_fan.append(True)
    pos = pos + rng.normal(size=3) * 5
    hyd = set()
    if hydrogens and n > 1:
        hyd = {int(j) for j in range(1, n) if rng.random() < 0.35}
    return gen.make_molecule(name, gen.atom_names(n, prefix, hydrogens=hyd), edges, pos), edges, hyd


def pairwise(p):
    return np.linalg.norm(p[:, None] - p[None, :], axis=-1)


def judge(ctx, before, after, edges_mobile, cyclic, start_is_mobile, types_used, w):
    """before/after: dict(start=pos, end=pos, names=(..))"""
    ctx.monitor('alignment_postcondition')
    fixed_key, mobile_key = ('end', 'start') if start_is_mobile else ('start', 'end')
    for key in ('start', 'end'):
        if not np.all(np.isfinite(after[key])):
            ctx.violation('non-finite-coordinates', f'{key} molecule has non-finite coordinates after the alignment', witness=w)
            return
    if before['names'] != after['names']:
        ctx.violation('names-or-order-changed', 'atom names/order changed', witness=w)
    # the molecule with more atoms (ties: start)
    fb, fa = before[fixed_key], after[fixed_key]
    if fixed_key == 'end':
        if not np.array_equal(fb, fa):
            ctx.violation('larger-end-molecule-modified', f'the end molecule (the larger one) changed: max |d| = {np.abs(fa - fb).max():.3g}', witness=w)
    else:
        d = fa - fb
        scale = 1.0 + float(np.abs(fb).max())
        if np.abs(d - d[0]).max() > 1e-9 * scale:
            ctx.violation('larger-start-molecule-not-a-pure-translate', f'the start molecule (larger or tie) was deformed/rotated: spread of displacements {np.abs(d - d[0]).max():.3g}', witness=w)
    # the other (mobile) molecule
    mb, ma = before[mobile_key], after[mobile_key]
    if len(mb) >= 2:
        if not cyclic:
            for a, b in edges_mobile:
                l0 = np.linalg.norm(mb[a] - mb[b])
                l1 = np.linalg.norm(ma[a] - ma[b])
                if abs(l1 - l0) > 1e-9:
                    ctx.violation('bonded-distance-changed', f'bond {a}-{b} of the mobile (acyclic) molecule: {l0!r} -> {l1!r}', witness=w)
                    break
        if 2 not in types_used:
            e = float(np.abs(pairwise(mb) - pairwise(ma)).max())
            if e > 1e-9:
                ctx.violation('shape-changed-without-atom-moves', f'single-atom moves disabled but pairwise distances changed by {e:.3g}', witness=w)
    elif mobile_key == 'end' and len(mb) == 1:
        if not np.array_equal(mb, ma):
            ctx.violation('one-atom-end-molecule-moved', 'end molecule of one atom was moved', witness=w)


def run_alignment(start, end, restr, types, ignore_h, factor, seed):
    from gaddlemaps import Alignment
    old = Alignment.STEPS_FACTOR
    Alignment.STEPS_FACTOR = factor
    try:
        ali = Alignment(start, end)
        before = {'start': np.array(ali.start.atoms_positions), 'end': np.array(ali.end.atoms_positions),
                  'names': ([a.name for a in ali.start], [a.name for a in ali.end])}
        np.random.seed(seed)
        ali.align_molecules(restrictions=None if restr is None else list(restr), deformation_types=types,
                            ignore_hydrogens=ignore_h)
        after = {'start': np.array(ali.start.atoms_positions), 'end': np.array(ali.end.atoms_positions),
                 'names': ([a.name for a in ali.start], [a.name for a in ali.end])}
    finally:
        Alignment.STEPS_FACTOR = old
    return before, after


def snapshot(mol):
    return (np.array(mol.atoms_positions), [a.name for a in mol], list(mol.atoms_ids), list(mol.resids),
            None if mol.atoms_velocities is None else np.array(mol.atoms_velocities))


def same_snapshot(a, b):
    return (np.array_equal(a[0], b[0]) and a[1] == b[1] and a[2] == b[2] and a[3] == b[3]
            and ((a[4] is None and b[4] is None) or (a[4] is not None and b[4] is not None and np.array_equal(a[4], b[4]))))


def drive(ctx, start, end, edges_s, edges_e, cyc_s, cyc_e, restr, rcls, types, ignore_h, factor, seed, w, key):
    n1, n2 = len(start), len(end)
    start_is_mobile = n1 < n2
    mobile_edges, cyclic = (edges_s, cyc_s) if start_is_mobile else (edges_e, cyc_e)
    nm = min(n1, n2) if n1 != n2 else n2
    snap_s, snap_e = snapshot(start), snapshot(end)
    try:
        before, after = run_alignment(start, end, restr, types, ignore_h, factor, seed)
    except Exception as exc:  # noqa
        ctx.violation(f'alignment-raises:{type(exc).__name__}', str(exc)[:200], witness=w)
        return
    ctx.count('evaluations')
    types_used = types if types is not None else ((0,) if (n1 == 1 or n2 == 1) else (0, 1, 2))
    judge(ctx, before, after, mobile_edges, cyclic, start_is_mobile, types_used, w)
    ctx.monitor('caller_objects_unchanged')
    if not same_snapshot(snapshot(start), snap_s) or not same_snapshot(snapshot(end), snap_e):
        which = 'start' if not same_snapshot(snapshot(start), snap_s) else 'end'
        ctx.violation(f'caller-molecule-modified:{which}', f'the {which} Molecule supplied by the caller was modified', witness=w)
    # repeat: same inputs, same seed -> identical bits
    try:
        with core.other_stdout():           # the repeat prints to the other kind of stdout (terminal-like <-> captured)
            before2, after2 = run_alignment(start, end, restr, types, ignore_h, factor, seed)
    except Exception as exc:  # noqa
        ctx.violation(f'alignment-raises-on-repeat:{type(exc).__name__}', str(exc)[:200], witness=w)
        return
    ctx.hit('repeat:other-kind-of-stdout')
    ctx.monitor('repeat_bit_identical')
    if not (np.array_equal(after['start'], after2['start']) and np.array_equal(after['end'], after2['end'])):
        ctx.violation('not-deterministic', 'two runs from the same inputs and seed differ', witness=w)
    ctx.hit('sizes:' + ('start-smaller' if n1 < n2 else 'start-larger' if n1 > n2 else 'tie'))
    ctx.hit('mobile:' + ('one-atom' if nm == 1 else 'cyclic' if cyclic else 'tree'))
    ctx.hit('hydrogens:' + ('ignored' if ignore_h else 'kept'))
    ctx.hit('restraints:' + ('none' if not restr else 'some'))
    ctx.hit('types:' + ('default' if types is None else str(types)))
    if n2 == 1:
        ctx.hit('end:one-atom')
    mob_b = before['start' if start_is_mobile else 'end']
    mob_a = after['start' if start_is_mobile else 'end']
    d = mob_a - mob_b
    if nm >= 2 and np.abs(d - d[0]).max() > 1e-9:
        ctx.nontrivial(key)
    return after


DRIVER = r'''
import json, os, sys
sys.path.insert(0, os.environ['VERIF_REPO_PATH'])
sys.path.insert(1, os.environ['VERIF_HOME'])
import warnings; warnings.simplefilter('ignore')
import numpy as np
from gmv import gen
from gaddlemaps import Alignment
spec = json.load(open(sys.argv[1]))
mk = lambda names, edges, pos: gen.make_molecule('MOLA', names, [tuple(e) for e in edges], np.array(pos))
start = mk(spec['names_start'], spec['edges_start'], spec['start_pos'])
end = mk(spec['names_end'], spec['edges_end'], spec['end_pos'])
Alignment.STEPS_FACTOR = spec['steps_factor']
ali = Alignment(start, end)
out = sys.stdout
sys.stdout = open(os.devnull, 'w')
np.random.seed(spec['seed'])
ali.align_molecules(restrictions=None if spec['restraints'] is None else [tuple(p) for p in spec['restraints']],
                    deformation_types=None if spec['types'] is None else tuple(spec['types']), ignore_hydrogens=spec['ignore_hydrogens'])
out.write(json.dumps({'start': ali.start.atoms_positions.tolist(), 'end': ali.end.atoms_positions.tolist()}))
'''


def other_interpreters(ctx, w, after):
    """The same alignment (inputs and random seed) in fresh interpreters with other hash seeds: bit-identical outcome."""
    import json
    import subprocess
    import sys
    import tempfile
    from .. import core
    spec = {k: (v.tolist() if isinstance(v, np.ndarray) else v) for k, v in w.items()}
    with tempfile.TemporaryDirectory(prefix='gmv_c06_') as d:
        sf = os.path.join(d, 'spec.json')
        with open(sf, 'w') as fh:
            json.dump(spec, fh)
        env = dict(os.environ, VERIF_REPO_PATH=core.REPO, VERIF_HOME=os.path.dirname(os.path.dirname(os.path.dirname(os.path.abspath(__file__)))))
        for h in (1, 2):
            env['PYTHONHASHSEED'] = str(h)
            try:
                r = subprocess.run([sys.executable, '-W', 'ignore', '-c', DRIVER, sf], env=env, capture_output=True, text=True, timeout=600)
                got = json.loads(r.stdout)
            except Exception as exc:  # noqa
                ctx.inconclusive_because(f'alignment driver under PYTHONHASHSEED={h} failed: {exc}')
                return
            ctx.monitor('repeat_in_other_interpreter')
            ctx.hit('repeat:other-hash-seed')
            if not (np.array_equal(np.array(got['start']), after['start']) and np.array_equal(np.array(got['end']), after['end'])):
                ctx.violation('not-deterministic:across-interpreters', f'the same inputs and random seed give another outcome under PYTHONHASHSEED={h}',
                              witness=w)
                return


def gen_restr(rng, cls, n1, n2):
    if cls == 'none':
        return [] if rng.random() < 0.5 else None
    if cls == 'partial':
        k = int(rng.integers(1, max(2, min(n1, n2))))
        return [(int(rng.integers(0, n1)), int(rng.integers(0, n2))) for _ in range(k)]
    if cls == 'full':
        return [(i, int(rng.integers(0, n2))) for i in range(n1)]
    p = (int(rng.integers(0, n1)), int(rng.integers(0, n2)))
    return [p, p, (int(rng.integers(0, n1)), p[1])]


def run_gen(ctx, case):
    i = case['i']
    rng = ctx.rng('gen', i)
    mode = i % 3
    big = 41 if (ctx.tier == 'thorough' or i % 10 == 0) else 18
    if mode == 0:
        n1, n2 = int(rng.integers(1, 15)), int(rng.integers(2, big))
        if n1 >= n2:
            n1, n2 = max(1, n2 - 1), n2 + 1
    elif mode == 1:
        n1, n2 = int(rng.integers(2, big)), int(rng.integers(1, 15))
        if n2 > n1:
            n1, n2 = n2, n1
        if n1 == n2:
            n1 += 1
    else:
        n1 = n2 = int(rng.integers(2, 20))
    nm = n1 if n1 < n2 else n2
    cyc_mobile = nm >= 3 and rng.random() < 0.3
    hyd = rng.random() < 0.6
    fan = i % 6 == 5
    del made_fan[:]
    start, es, hs = make_mol(rng, 'MOLA', n1, cyc_mobile if n1 < n2 else rng.random() < 0.3, hyd, 'B', fan=fan and n1 < n2)
    end, ee, he = make_mol(rng, 'MOLA', n2, cyc_mobile if n1 >= n2 else rng.random() < 0.3, hyd, 'C', fan=fan and n1 >= n2)
    if made_fan:
        ctx.hit('mobile:collinear-neighbours')
    cyc_s = len(es) > n1 - 1
    cyc_e = len(ee) > n2 - 1
    admissible = [t for t in TYPES if t is None or (2 not in t or nm >= 2)]
    types = admissible[(i // 3) % len(admissible)]
    rcls = ['none', 'partial', 'full', 'duplicated'][int(rng.integers(0, 4))]
    restr = gen_restr(rng, rcls, n1, n2)
    ignore_h = bool(rng.random() < 0.5)
    factor = int(rng.choice([1, 5, 50], p=[.55, .42, .03])) if ctx.tier == 'thorough' else int(rng.choice([1, 5, 20], p=[.7, .28, .02]))
    seed = ctx.libseed('gen', i)
    w = {'n_start': n1, 'n_end': n2, 'edges_start': es, 'edges_end': ee, 'types': types, 'restraints': restr,
         'ignore_hydrogens': ignore_h, 'steps_factor': factor, 'seed': seed,
         'start_pos': np.array(start.atoms_positions), 'end_pos': np.array(end.atoms_positions),
         'names_start': [a.name for a in start], 'names_end': [a.name for a in end]}
    first = drive(ctx, start, end, es, ee, cyc_s, cyc_e, restr, rcls, types, ignore_h, factor, seed, w,
                  (n1, n2, cyc_mobile, types, ignore_h, rcls, factor))
    if i % 50 == 7 and first is not None:
        other_interpreters(ctx, w, first)
    if i < 3:
        ctx.sample({k: w[k] for k in ('n_start', 'n_end', 'types', 'restraints', 'ignore_hydrogens', 'steps_factor', 'seed')})


def run_shipped(ctx, case):
    from .c01 import load_shipped_pairs
    from .. import emmon
    rng = ctx.rng('shipped', case['i'])
    pairs = load_shipped_pairs(only=[0, 1, 2][case['i'] % 3])
    for label, a, b in pairs:
        es, ee = emmon.mol_edges(a), emmon.mol_edges(b)
        seed = ctx.libseed('shipped', case['i'])
        types = [None, (0, 1), (0, 1, 2)][(case['i'] // 3) % 3]
        if types is not None and 2 in types and min(len(a), len(b)) < 2:
            types = (0, 1)      # single-atom moves are only in scope when the mobile molecule has at least two atoms
        w = {'pair': label, 'types': types, 'seed': seed}
        drive(ctx, a, b, es, ee, len(es) > len(a) - 1, len(ee) > len(b) - 1, None, 'none', types, True, 1, seed, w,
              ('shipped', label, types))
        ctx.hit('shipped')


def run_session(ctx, case):
    """One Alignment object used for several alignments in a row: aligned again as it stands, after one of its molecules
    was replaced by another configuration of the same species (different bond lengths), with other options each time.
    Every alignment is judged against the state the object had right before that alignment."""
    from gaddlemaps import Alignment
    i = case['i']
    rng = ctx.rng('session', i)
    n1, n2 = int(rng.integers(2, 12)), int(rng.integers(2, 12))
    if i % 3 == 0:
        n2 = n1
    multi = i % 4 == 1
    hyd = rng.random() < 0.5

    def build(n, prefix, nres):
        edges = gen.random_tree(rng, n)
        hs = {int(j) for j in range(1, n) if hyd and rng.random() < 0.3}
        names = gen.atom_names(n, prefix, hydrogens=hs)
        cuts = sorted(int(x) for x in rng.choice(np.arange(1, n), size=nres - 1, replace=False)) if nres > 1 else []
        resids = [1 + sum(1 for c in cuts if j >= c) for j in range(n)]
        resnames = [f'R{r}' for r in resids]

        def conf():
            pos = gen.embed_graph(rng, n, edges) + rng.normal(size=3) * 3
            return gen.make_molecule('MOLS', names, edges, pos, resnames=resnames, resids=resids)
        return edges, conf

    nres = int(rng.integers(2, min(n1, n2) + 1)) if multi and min(n1, n2) >= 2 else 1
    es, conf_s = build(n1, 'B', nres)
    ee, conf_e = build(n2, 'C', nres)
    start_is_mobile = n1 < n2
    mobile_edges = es if start_is_mobile else ee
    ali = Alignment(conf_s(), conf_e())
    old = Alignment.STEPS_FACTOR
    Alignment.STEPS_FACTOR = int(rng.choice([1, 3, 8]))
    admissible = [t for t in TYPES if t is None or 2 not in t or min(n1, n2) >= 2]
    ops = []
    try:
        for step in range(int(rng.integers(2, 5))):
            op = 'first' if step == 0 else ['again', 'replace-start', 'replace-end', 'replace-both', 'reshape-stored', 'interrupted'][int(rng.integers(0, 6))]
            if op == 'reshape-stored':
                # the molecules the Alignment holds are live objects: one of them gets the coordinates of another frame
                # (other bond lengths) assigned in place; "initial" is what it looks like when the alignment starts
                which = ali.start if rng.random() < 0.5 else ali.end
                other = (conf_s if which is ali.start else conf_e)()
                which.atoms_positions = np.array(other.atoms_positions)
                ctx.hit('session:stored-molecule-reshaped-in-place')
            held = {}
            if op in ('replace-start', 'replace-both'):
                held['start'] = conf_s()
                ali.start = held['start']
            if op in ('replace-end', 'replace-both'):
                held['end'] = conf_e()
                ali.end = held['end']
            snaps = {k: snapshot(m) for k, m in held.items()}
            types = admissible[int(rng.integers(0, len(admissible)))]
            restr = None if (multi or rng.random() < 0.5) else gen_restr(rng, 'partial', n1, n2)
            ignore_h = bool(rng.random() < 0.5)
            seed = ctx.libseed('session', i * 10 + step)
            ops.append({'op': op, 'types': types, 'restraints': restr, 'ignore_hydrogens': ignore_h, 'seed': seed})
            w = {'n_start': n1, 'n_end': n2, 'edges_start': es, 'edges_end': ee, 'residues': nres, 'ops': list(ops),
                 'steps_factor': Alignment.STEPS_FACTOR}
            before = {'start': np.array(ali.start.atoms_positions), 'end': np.array(ali.end.atoms_positions),
                      'names': ([a.name for a in ali.start], [a.name for a in ali.end])}
            np.random.seed(seed)
            if op == 'interrupted':
                # the search is interrupted from outside (Ctrl-C: KeyboardInterrupt out of the k-th random draw), the caller
                # catches that and keeps the object; an end molecule that is the larger one is still untouched, and the
                # session goes on with the same Alignment
                real_choice, left = np.random.choice, [int(rng.integers(1, 25))]

                def choice(*a, **k):
                    left[0] -= 1
                    if left[0] <= 0:
                        raise KeyboardInterrupt()
                    return real_choice(*a, **k)
                interrupted = False
                try:
                    with bus.patched(np.random, 'choice', choice):
                        ali.align_molecules(restrictions=restr, deformation_types=types, ignore_hydrogens=ignore_h)
                except KeyboardInterrupt:
                    interrupted = True
                except Exception as exc:  # noqa
                    ctx.violation(f'alignment-raises:session:{type(exc).__name__}', str(exc)[:200], witness=w)
                    return
                if interrupted:
                    ctx.hit('session:alignment-interrupted-and-object-kept')
                    if not start_is_mobile and not np.array_equal(np.array(ali.end.atoms_positions), before['end']):
                        ctx.violation('end-molecule-changed-by-an-interrupted-alignment',
                                      'the end molecule (not the smaller one) has other coordinates after an alignment that was interrupted', witness=w)
                    if start_is_mobile and not np.array_equal(np.array(ali.end.atoms_positions), before['end']):
                        ctx.violation('end-molecule-changed-by-an-interrupted-alignment',
                                      'the larger end molecule has other coordinates after an alignment that was interrupted', witness=w)
                    continue
            else:
                try:
                    ali.align_molecules(restrictions=restr, deformation_types=types, ignore_hydrogens=ignore_h)
                except Exception as exc:  # noqa
                    ctx.violation(f'alignment-raises:session:{type(exc).__name__}', str(exc)[:200], witness=w)
                    return
            after = {'start': np.array(ali.start.atoms_positions), 'end': np.array(ali.end.atoms_positions),
                     'names': ([a.name for a in ali.start], [a.name for a in ali.end])}
            ctx.count('evaluations')
            judge(ctx, before, after, mobile_edges, False, start_is_mobile, types if types is not None else (0, 1, 2), w)
            ctx.monitor('caller_objects_unchanged')
            for k, m in held.items():
                if not same_snapshot(snapshot(m), snaps[k]):
                    ctx.violation(f'caller-molecule-modified:{k}', f'the {k} Molecule assigned to a used Alignment was modified', witness=w)
            if op == 'again':
                ctx.hit('session:re-aligned')
            elif op not in ('first', 'reshape-stored'):
                ctx.hit('session:molecule-replaced')
            if nres > 1:
                ctx.hit('session:multi-residue')
    finally:
        Alignment.STEPS_FACTOR = old
    ctx.nontrivial(('session', n1, n2, nres, tuple(o['op'] for o in ops)))


def run_case(ctx, case):
    {'gen': run_gen, 'shipped': run_shipped, 'session': run_session}[case['kind']](ctx, case)
