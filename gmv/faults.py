"""
Crash-point injector for the .gro writer.

sys.monitoring LINE (and PY_RETURN) events are enabled on the code objects of
the writer functions.  At every statement boundary the callback reads the
output path through a *second* file descriptor: those bytes are exactly what
would survive a process kill at that statement.  Each distinct on-disk state is
a crash image.  Buffering models are selected by shadowing the builtin `open`
in the writer's module globals (gaddlemaps.parsers.open).
"""
import io
import os
import sys

TOOL = 3

WRITER_FUNCS = ('writeline', 'writelines', '_setup_write_file', 'close', '_write_closing_info', 'seek_atom',
                'parse_atomlist', '__exit__')


class FlushingFile:
    """Pass-through proxy that flushes after every write(): operation
    granularity (exposes half-written records between two write calls)."""

    def __init__(self, real):
        self.__dict__['_real'] = real

    def write(self, data):
        n = self._real.write(data)
        self._real.flush()
        return n

    def __getattr__(self, name):
        return getattr(self.__dict__['_real'], name)

    def __setattr__(self, name, value):
        setattr(self.__dict__['_real'], name, value)

    def __iter__(self):
        return iter(self.__dict__['_real'])


def make_open(model):
    """Replacement for `open` inside gaddlemaps.parsers for write mode."""
    def _open(path, mode='r', *args, **kwargs):
        if 'w' not in mode:
            return open(path, mode, *args, **kwargs)
        # whatever else the library passes to open() (an opener, an encoding) is passed on: the buffering model is the only
        # thing this stand-in decides
        if model == 'default':
            return open(path, mode, *args, **kwargs)
        if model == 'line':
            return open(path, mode, *args, **dict(kwargs, buffering=1))
        if model == 'flush-per-write':
            return FlushingFile(open(path, mode, *args, **kwargs))
        if model.startswith('tiny-'):
            size = int(model.split('-')[1])
            raw = io.FileIO(path, 'w', opener=kwargs.get('opener'))
            buf = io.BufferedWriter(raw, buffer_size=size)
            text = io.TextIOWrapper(buf, write_through=True)
            text.mode = mode
            return text
        raise ValueError(model)
    return _open


BUFFER_MODELS = ('default', 'line', 'flush-per-write', 'tiny-13')


def writer_codes():
    from gaddlemaps.parsers import GroFile, CoordinatesParser
    codes = {}
    for cls in (GroFile, CoordinatesParser):
        for name in WRITER_FUNCS:
            f = cls.__dict__.get(name)
            f = getattr(f, '__func__', f)
            f = getattr(f, '__gmv_original__', f)
            code = getattr(f, '__code__', None)
            if code is not None:
                codes[code] = f'{cls.__name__}.{name}'
    return codes


class CrashRecorder:
    """Runs a writer callable and records the on-disk image at every writer
    statement boundary."""

    def __init__(self, path):
        self.path = path
        self.codes = writer_codes()
        self.events = []          # (func label, line, image index)
        self.images = []          # distinct byte strings in order of first appearance
        self._index = {}
        self.kill_at = None       # event number at which to os._exit (real-kill mode)

    def _snapshot(self, label, line):
        try:
            with open(self.path, 'rb') as fh:
                data = fh.read()
        except FileNotFoundError:
            data = None
        if data not in self._index:
            self._index[data] = len(self.images)
            self.images.append(data)
        self.events.append((label, line, self._index[data]))
        if self.kill_at is not None and len(self.events) == self.kill_at:
            os._exit(0)

    def _on_line(self, code, line):
        label = self.codes.get(code)
        if label is not None:
            self._snapshot(label, line)

    def _on_return(self, code, offset, retval):
        label = self.codes.get(code)
        if label is not None:
            self._snapshot(label, -1)

    def run(self, fn):
        mon = sys.monitoring
        mon.use_tool_id(TOOL, 'gmv-faults')
        ev = mon.events.LINE | mon.events.PY_RETURN
        mon.register_callback(TOOL, mon.events.LINE, self._on_line)
        mon.register_callback(TOOL, mon.events.PY_RETURN, self._on_return)
        for code in self.codes:
            mon.set_local_events(TOOL, code, ev)
        try:
            return fn()
        finally:
            for code in self.codes:
                mon.set_local_events(TOOL, code, 0)
            mon.register_callback(TOOL, mon.events.LINE, None)
            mon.register_callback(TOOL, mon.events.PY_RETURN, None)
            mon.free_tool_id(TOOL)
