"""
Monitor bus: replaces module/class attributes by wrappers that call the real
function and then evaluate an oracle which *records* (never raises) into the
Ctx.  `from m import f` binds at import time, so a function is patched at
every name through which repository code reaches it.
"""
import contextlib
import importlib
import sys

# real object -> the names that repository code resolves at call time
NAMES = {
    'calcule_base': ['gaddlemaps._auxilliary', 'gaddlemaps._exchage_map', 'gaddlemaps'],
    'rotation_matrix': ['gaddlemaps._auxilliary', 'gaddlemaps._backend', 'gaddlemaps'],
    'move_mol_atom': ['gaddlemaps._transform_molecule', 'gaddlemaps._backend', 'gaddlemaps'],
    'find_atom_random_displ': ['gaddlemaps._transform_molecule', 'gaddlemaps'],
    'Chi2Calculator': ['gaddlemaps._backend', 'gaddlemaps'],
    'accept_metropolis': ['gaddlemaps._backend', 'gaddlemaps'],
    'minimize_molecules': ['gaddlemaps._backend', 'gaddlemaps._alignment', 'gaddlemaps'],
    '_minimize_molecules': ['gaddlemaps._backend'],
    'guess_protein_restrains': ['gaddlemaps._alignment', 'gaddlemaps._manager', 'gaddlemaps'],
    'guess_residue_restrains': ['gaddlemaps._alignment', 'gaddlemaps'],
    'remove_hydrogens': ['gaddlemaps._alignment', 'gaddlemaps'],
}


def original(name):
    """The real function, wherever it is currently reachable (unwrapped)."""
    mod = importlib.import_module(NAMES[name][0])
    f = getattr(mod, name)
    return getattr(f, '__gmv_original__', f)


def _targets(name):
    out = []
    for modname in NAMES[name]:
        mod = importlib.import_module(modname)
        if hasattr(mod, name):
            out.append(mod)
    return out


def install(name, make_wrapper):
    """Permanently wrap `name` at all its call-time names.
    make_wrapper(real) -> wrapper.  Each name keeps the object IT is bound to: when a package re-exports another
    implementation under the same name (a "lean" variant for one caller, say), that implementation is the one that
    gets wrapped and judged there, not the one of the first module."""
    made = {}
    first = None
    for mod in _targets(name):
        here = getattr(mod, name)
        real = getattr(here, '__gmv_original__', here)
        if id(real) not in made:
            w = make_wrapper(real)
            try:
                w.__gmv_original__ = real
            except AttributeError:
                pass
            made[id(real)] = w
        setattr(mod, name, made[id(real)])
        if first is None:
            first = made[id(real)]
    return first


def uninstall(name):
    for mod in _targets(name):
        here = getattr(mod, name)
        setattr(mod, name, getattr(here, '__gmv_original__', here))


@contextlib.contextmanager
def installed(name, make_wrapper):
    saved = [(mod, getattr(mod, name)) for mod in _targets(name)]
    install(name, make_wrapper)
    try:
        yield
    finally:
        for mod, f in saved:
            setattr(mod, name, f)


@contextlib.contextmanager
def patched(obj, attr, value):
    """Temporarily set obj.attr = value (class attribute, module global ...)."""
    missing = object()
    old = obj.__dict__.get(attr, missing) if hasattr(obj, '__dict__') else getattr(obj, attr, missing)
    setattr(obj, attr, value)
    try:
        yield
    finally:
        if old is missing:
            try:
                delattr(obj, attr)
            except AttributeError:
                pass
        else:
            setattr(obj, attr, old)


@contextlib.contextmanager
def neutral():
    """The monitors' own arithmetic runs inside the library call, hence under whatever warning / floating-point settings
    the workload chose for that call; judging is done under NumPy's and Python's defaults."""
    import warnings
    import numpy as np
    with warnings.catch_warnings():
        warnings.simplefilter('ignore')
        with np.errstate(divide='warn', over='warn', under='ignore', invalid='warn'):
            yield


_MISSING = object()


def seen(names, args, kwargs, defaults=None):
    """Values a call gave for the named parameters, WITHOUT changing how the call is forwarded: wrappers pass
    *args/**kwargs to the real function exactly as they received them (positional stays positional, keyword stays
    keyword) and use this only to look at what was passed."""
    defaults = defaults or {}
    out = []
    for k, n in enumerate(names):
        if k < len(args):
            out.append(args[k])
        elif n in kwargs:
            out.append(kwargs[n])
        else:
            out.append(defaults.get(n))
    return out
