"""
Reference models (the oracles).  Written from the property statements with
plain loops; no helper is shared with the repository.
"""
import math
import re

import numpy as np


# ---------------------------------------------------------------------------
# C08

def ref_chi2(fixed, mobile, restraints):
    """sum over restrained pairs |f_i - m_j|^2 + sum over unrestrained fixed
    atoms of the squared distance to the nearest mobile atom, times 1.1**k,
    k = mobile atoms neither restrained nor nearest to an unrestrained fixed
    atom.  Returns (value, tie_margin): tie_margin is the smallest relative gap
    between the nearest and second nearest mobile atom over the unrestrained
    fixed atoms (inf when there is no competition)."""
    fixed = [tuple(map(float, p)) for p in fixed]
    mobile = [tuple(map(float, p)) for p in mobile]
    restrained_fixed = set()
    used_mobile = set()
    total = 0.0
    for (i, j) in (restraints or []):
        i, j = int(i), int(j)
        restrained_fixed.add(i)
        used_mobile.add(j)
    for (i, j) in (restraints or []):
        i, j = int(i), int(j)
        total += sum((a - b) ** 2 for a, b in zip(fixed[i], mobile[j]))
    margin = math.inf
    for i, f in enumerate(fixed):
        if i in restrained_fixed:
            continue
        best, best_j, second = math.inf, None, math.inf
        for j, m in enumerate(mobile):
            d = sum((a - b) ** 2 for a, b in zip(f, m))
            if d < best:
                second = best
                best, best_j = d, j
            elif d < second:
                second = d
        total += best
        used_mobile.add(best_j)
        if second < math.inf:
            margin = min(margin, (second - best) / max(second, 1e-300))
    k = len(mobile) - len(used_mobile)
    return total * (1.1 ** k), margin


# ---------------------------------------------------------------------------
# C19

def ref_min_image_orthorhombic(delta, lengths):
    """Minimum over periodic images of |delta + n*L| for a rectangular box,
    per-axis scan of the neighbouring images.  Also returns the tie margin:
    how far (absolute) any axis is from an exact half-box tie."""
    best2 = 0.0
    margin = math.inf
    for d, L in zip(delta, lengths):
        d, L = float(d), float(L)
        n0 = math.floor(d / L)
        cands = sorted(abs(d - (n0 + k) * L) for k in (-1, 0, 1, 2))
        best2 += cands[0] ** 2
        margin = min(margin, cands[1] - cands[0])
    return math.sqrt(best2), margin


def ref_min_image_general(delta, box, reach=3):
    """Brute force over lattice shifts in [-reach, reach]^3 after reducing the
    fractional coordinates to [-0.5, 0.5) (rows of box are lattice vectors)."""
    box = np.asarray(box, float)
    frac = np.linalg.solve(box.T, np.asarray(delta, float))
    frac -= np.round(frac)
    best = math.inf
    for a in range(-reach, reach + 1):
        for b in range(-reach, reach + 1):
            for c in range(-reach, reach + 1):
                v = (frac + np.array([a, b, c])) @ box
                best = min(best, float(np.linalg.norm(v)))
    return best


# ---------------------------------------------------------------------------
# .gro reference reader (fixed columns)

def ref_gro_read(path_or_text, is_text=False):
    """Independent reader: returns dict(title, natoms_declared, records, box, dec, has_vel).
    records: (resid, resname, name, atomid, (x,y,z), (vx,vy,vz)|None).  Raises
    ValueError on anything that is not a complete file."""
    if is_text:
        text = path_or_text
    else:
        with open(path_or_text, 'r', newline='') as fh:
            text = fh.read()
    lines = text.split('\n')
    if len(lines) < 4:
        raise ValueError('too short')
    title = lines[0]
    n = int(lines[1].strip())
    body = lines[2:2 + n]
    if len(body) < n:
        raise ValueError('missing atom lines')
    first = body[0] if n else ''
    ndots = first[20:].count('.')
    if n and ndots not in (3, 6):
        raise ValueError('bad coordinate count')
    w = (len(first) - 20) // ndots if n else 8
    dec = w - 5
    records = []
    for ln in body:
        if len(ln) != len(first):
            raise ValueError('ragged atom lines')
        resid = int(ln[0:5])
        resname = ln[5:10].strip()
        name = ln[10:15].strip()
        atomid = int(ln[15:20])
        vals = [float(ln[20 + k * w:20 + (k + 1) * w]) for k in range(ndots)]
        records.append((resid, resname, name, atomid, tuple(vals[:3]),
                        tuple(vals[3:6]) if ndots == 6 else None))
    if len(lines) < 2 + n + 1 or (len(lines) == 2 + n + 1 and lines[2 + n] == '' and False):
        raise ValueError('no box line')
    boxline = lines[2 + n]
    vals = [float(x) for x in boxline.split()]
    if len(vals) not in (3, 9):
        raise ValueError('bad box line')
    box = np.zeros((3, 3))
    order = [(0, 0), (1, 1), (2, 2), (0, 1), (0, 2), (1, 0), (1, 2), (2, 0), (2, 1)]
    for (i, j), v in zip(order, vals):
        box[i, j] = v
    rest = lines[2 + n + 1:]
    return {'title': title, 'natoms': n, 'records': records, 'box': box, 'dec': dec,
            'has_vel': ndots == 6, 'line_len': len(first),
            'complete': len(rest) >= 1, 'trailing': rest}


# ---------------------------------------------------------------------------
# .itp reference tokeniser

_SEC = re.compile(r'^\s*\[\s*(.*?)\s*\]')


def ref_itp_tokens(path):
    """Tokenise an .itp file independently of the library.

    Returns (header_items, sections) where sections is an ordered list of
    (name, items), sections with the same name merged in order of first
    appearance, and items are
        ('content', tokens, comment_text)   content line (+ trailing comment text, ''
                                            when none or empty)
        ('comment', text)                   comment-only line (text stripped, non-empty)
        ('pre', text)                       preprocessor line (stripped)
    Blank lines and empty comments are not represented."""
    with open(path, encoding='utf-8') as fh:
        raw = fh.read().split('\n')
    header = []
    order = []
    secs = {}
    cur = header
    for ln in raw:
        s = ln.strip()
        if not s:
            continue
        m = _SEC.match(s)
        if m and s.startswith('['):
            name = m.group(1).strip()
            if name not in secs:
                secs[name] = []
                order.append(name)
            cur = secs[name]
            continue
        if s.startswith('#'):
            cur.append(('pre', s))
            continue
        if s.startswith(';'):
            text = s[1:].strip()
            if text:
                cur.append(('comment', text))
            continue
        if ';' in s:
            content, comment = s.split(';', 1)
            cur.append(('content', tuple(content.split()), comment.strip()))
        else:
            cur.append(('content', tuple(s.split()), ''))
    return header, [(n, secs[n]) for n in order]


# ---------------------------------------------------------------------------
# graphs

def connected(n, edges):
    parent = list(range(n))

    def find(x):
        while parent[x] != x:
            parent[x] = parent[parent[x]]
            x = parent[x]
        return x
    for a, b in edges:
        ra, rb = find(a), find(b)
        if ra != rb:
            parent[ra] = rb
    return len({find(v) for v in range(n)}) <= 1


# ---------------------------------------------------------------------------
# exchange-map anchor law

def anchors_of(n, edges):
    deg = [0] * n
    for a, b in set((min(a, b), max(a, b)) for a, b in edges):
        deg[a] += 1
        deg[b] += 1
    return [i for i in range(n) if deg[i] >= 2]


def frame_neighbours(n, edges, anchor):
    nb = sorted({b if a == anchor else a for a, b in edges if anchor in (a, b)})
    return nb[0], nb[1]


def nearest_anchors(ref_pos, anchors, p, tie=1e-12):
    """(list of anchors whose distance to p is within `tie` of the minimum,
    gap to the next one)."""
    d = sorted((float(np.linalg.norm(np.asarray(p) - ref_pos[a])), a) for a in anchors)
    best = d[0][0]
    allowed = [a for dist, a in d if dist - best <= tie * max(1.0, best)]
    rest = [dist for dist, a in d if a not in allowed]
    gap = (rest[0] - best) if rest else math.inf
    return allowed, gap
