"""
Specifications of .gro contents (ground truth for C05, C12, C13, C14) and the
driver that writes one with the library's GroFile writer.
"""
import string

import numpy as np

NAME_CHARS = string.ascii_letters + string.digits + "+-*_'#@$%&()[]{}<>=/\\|!?^~`:,\".;"


def fits(v, w, d):
    s = '%.*f' % (d, v)
    return len(s) <= w


def gen_name(rng, cls=None):
    cls = cls or ['alpha', 'alnum', 'digits', 'punct', 'mixed', 'number-like'][int(rng.integers(0, 6))]
    n = int(rng.integers(1, 6))
    if cls == 'number-like':
        # names that look like (parts of) numbers: a decimal point, a sign, an exponent
        return ['0.5M', 'O.co2', '1.0', '.5', '-1.5', '1e3', '+2', 'N.3', '0.', '3.14'][int(rng.integers(0, 10))]
    pool = {'alpha': string.ascii_letters, 'alnum': string.ascii_uppercase + string.digits,
            'digits': string.digits, 'punct': "+-*_'#@", 'mixed': NAME_CHARS}[cls]
    return ''.join(pool[int(i)] for i in rng.integers(0, len(pool), n))


NUMBER_EDGE = [0, 1, 9, 10, 9999, 10000, 99998, 99999, 100000, 100001, 199998, 199999, 200000, 999999, 10 ** 7]


def gen_number(rng, cls):
    if cls == 'small':
        return int(rng.integers(1, 1000))
    if cls == 'edge':
        return int(NUMBER_EDGE[int(rng.integers(0, len(NUMBER_EDGE)))])
    if cls == 'five-digit':
        return int(rng.integers(10000, 100000))
    return int(rng.integers(0, 10 ** 7 + 1))


def gen_coord(rng, cls, w, d):
    unit = 10.0 ** -d
    for _ in range(50):
        if cls == 'random':
            v = float(rng.uniform(-50, 50))
        elif cls == 'rounding-boundary':
            v = float(rng.integers(-20000, 20000)) * unit + 0.5 * unit
            if rng.random() < 0.3:
                v = float(np.nextafter(v, v + rng.choice([-1, 1])))
        elif cls == 'negative-zero':
            v = float(rng.choice([-0.0, -0.4 * unit, -0.5 * unit, 0.0, 0.49 * unit]))
        elif cls == 'widest':
            v = float(rng.choice([10.0 ** 4 - unit, -(10.0 ** 3 - unit), 10.0 ** 4 - 1.4 * unit,
                                  -(10.0 ** 3) + 1.4 * unit, 999.0, -99.0]))
        elif cls == 'integer':
            v = float(rng.integers(-99, 100))
        else:
            v = float(rng.normal() * 10.0 ** rng.uniform(-4, 2))
        if fits(v, w, d):
            return v
    return 0.0


COORD_CLASSES = ['random', 'rounding-boundary', 'negative-zero', 'widest', 'integer', 'scales']
BOX_CLASSES = ['vector', 'diagonal', 'triclinic', 'triclinic-negative', 'triclinic-tiny', 'unset', 'zero-vector',
               'triclinic-upper', 'triclinic-single']
TITLES = ['ionic liquid', ' leading blank', 'trailing blank  ', 't=   0.00000 step= 0', 'x', '; semi [ bracket ]',
          '   ', '12345', 'Gro file, with: punctuation! (and) more', 'tab\there',
          # characters that take more than one byte in the file (character count != byte count)
          "Prot\u00e9ine dans l'eau", 'box in nm\u00b2, \u03b1-helix', '\u6c34 64 mol\u00e9culas', 'caf\u00e9']


def gen_box(rng, cls):
    L = rng.uniform(0.5, 30, 3)
    if cls == 'vector':
        return L
    if cls == 'diagonal':
        return np.diag(L)
    if cls == 'unset':
        return None
    if cls == 'zero-vector':
        return np.zeros(3)
    box = np.diag(L)
    if cls == 'triclinic':
        box[1, 0], box[2, 0], box[2, 1] = rng.uniform(0, 0.5, 3) * L[[0, 0, 1]]
    elif cls == 'triclinic-negative':
        for (i, j) in [(0, 1), (0, 2), (1, 0), (1, 2), (2, 0), (2, 1)]:
            box[i, j] = rng.uniform(-5, 5)
    elif cls == 'triclinic-upper':
        # only entries above the diagonal (not the gromacs convention, but a legal 3x3 input)
        for (i, j) in [(0, 1), (0, 2), (1, 2)]:
            if rng.random() < 0.7:
                box[i, j] = rng.uniform(-5, 5)
        if not (box[0, 1] or box[0, 2] or box[1, 2]):
            box[1, 2] = -1.25
    elif cls == 'triclinic-single':
        # exactly one off-diagonal entry, any of the six, any sign
        i, j = [(0, 1), (0, 2), (1, 0), (1, 2), (2, 0), (2, 1)][int(rng.integers(0, 6))]
        box[i, j] = rng.uniform(0.01, 5) * rng.choice([-1, 1])
    else:
        box[1, 0] = rng.choice([1e-7, 3e-6, 1e-5, -2e-6])
    return box


def box_as_matrix(box):
    if box is None:
        return np.zeros((3, 3))
    box = np.asarray(box, float)
    return np.diag(box) if box.shape == (3,) else box


def gen_spec(rng, nmax=300, dec=None, with_vel=None, force=None):
    """A random file specification.  force: dict of class overrides."""
    force = force or {}
    d = dec if dec is not None else (3 if rng.random() < 0.4 else int(rng.integers(1, 7)))
    w = d + 5
    vel = bool(rng.random() < 0.4) if with_vel is None else with_vel
    if force.get('n'):
        n = int(force['n'])
    elif rng.random() < 0.8:
        n = int(min(nmax, max(1, rng.geometric(0.03))))
    else:
        n = int(rng.integers(1, nmax + 1))
    ncls = force.get('numbers') or ['small', 'edge', 'five-digit', 'any'][int(rng.integers(0, 4))]
    ccls = force.get('coords') or COORD_CLASSES[int(rng.integers(0, len(COORD_CLASSES)))]
    records = []
    for i in range(n):
        cc = ccls if rng.random() < 0.8 else COORD_CLASSES[int(rng.integers(0, len(COORD_CLASSES)))]
        rec = {'resid': gen_number(rng, ncls), 'resname': gen_name(rng), 'name': gen_name(rng),
               'atomid': gen_number(rng, ncls if rng.random() < 0.7 else 'edge'),
               'xyz': [gen_coord(rng, cc, w, d) for _ in range(3)]}
        if vel:
            rec['vel'] = [gen_coord(rng, cc if cc != 'widest' else 'random', w, d + 1) for _ in range(3)]
            # velocities have one more decimal in the same width: re-check they fit
            rec['vel'] = [v if fits(v, w, d + 1) else 0.0 for v in rec['vel']]
            if rng.random() < 0.06:
                rec['vel'] = [0.0, 0.0, 0.0]           # an atom at rest
            elif rng.random() < 0.06:
                # slow and negative: just above half a unit of the last written velocity decimal
                rec['vel'][int(rng.integers(0, 3))] = -float(rng.choice([0.6, 1.0, 3.0, 9.0])) * 10.0 ** -(d + 1)
        records.append(rec)
    bcls = force.get('box') or BOX_CLASSES[int(rng.integers(0, len(BOX_CLASSES)))]
    box = gen_box(rng, bcls)
    fmt = force.get('format')
    if fmt is None:
        fmt = 'set' if d != 3 else ['default', 'set'][int(rng.integers(0, 2))]
    title = None if rng.random() < 0.1 else TITLES[int(rng.integers(0, len(TITLES)))]
    if force.get('title') == 'multibyte':
        title = TITLES[-1 - int(rng.integers(0, 4))]
    return {'title': title, 'records': records, 'box': None if box is None else box.tolist(), 'box_class': bcls,
            'dec': d, 'format': fmt, 'declare_count': bool(rng.random() < 0.5) if 'declare' not in force else force['declare'],
            'with_vel': vel, 'number_class': ncls, 'coord_class': ccls,
            'use_writelines': bool(rng.random() < 0.2), 'as_tuple': bool(rng.random() < 0.3),
            'schedule': gen_schedule(rng, n) if rng.random() < 0.35 else None,
            # how the writer's attributes are used: set once before writing, set to something else first and then to the
            # final value, or (box and title, which go to the file's frame) set after the records were written
            'attr_history': gen_attr_history(rng, force),
            # something goes wrong and is handled: before these records (never the first) the caller offers a malformed
            # record - too few fields, velocities unlike the file's - catches the refusal and carries on with the writer
            'refusals': sorted({int(k) for k in rng.integers(1, n, int(rng.integers(1, 4)))}) if (n >= 2 and rng.random() < 0.3) else []}


def gen_attr_history(rng, force):
    if 'attrs' in force:
        return force['attrs']
    r = rng.random()
    if r < 0.6:
        return None
    if r < 0.85:
        other = gen_box(rng, ['vector', 'triclinic-negative', 'triclinic', 'diagonal'][int(rng.integers(0, 4))])
        return {'kind': 'reassigned', 'box_first': other.tolist(), 'title_first': 'an earlier title that is replaced',
                'ints': bool(rng.random() < 0.3)}
    return {'kind': 'after-records'}


def gen_schedule(rng, n):
    """Random sequence of writeline / writelines calls covering n records (chunks of
    0, 1, 2, ... records; a one-record writelines call first is generated on purpose)."""
    out, k = [], 0
    first = True
    while k < n:
        r = rng.random()
        if r < 0.3:
            out.append(('line',))
            k += 1
        else:
            size = int(rng.choice([0, 1, 1, 2, 3, 7])) if (first or rng.random() < 0.7) else int(rng.integers(1, n - k + 1))
            size = min(size, n - k)
            out.append(('lines', size))
            k += size
        first = False
    return out


def record_list(rec, as_tuple=False):
    out = [rec['resid'], rec['resname'], rec['name'], rec['atomid']] + list(rec['xyz'])
    if 'vel' in rec:
        out += list(rec['vel'])
    return tuple(out) if as_tuple else out


def write_spec(spec, path, GroFile=None, upto=None, close=True):
    """Write the specification with the library writer.  Returns the writer
    object (closed unless close=False)."""
    if GroFile is None:
        from gaddlemaps.parsers import GroFile
    g = GroFile(path, 'w')
    hist = spec.get('attr_history') or {}
    late = hist.get('kind') == 'after-records' and close and upto is None
    if hist.get('kind') == 'reassigned':
        if spec['box'] is not None:
            first = np.array(hist['box_first'])
            g.box_matrix = np.rint(first).astype(int) if hist.get('ints') else first
        if spec['title'] is not None:
            g.comment = hist['title_first']
    if spec['title'] is not None:
        g.comment = spec['title']               # the title goes out with the first record: always set before
    if spec['box'] is not None and not late:
        g.box_matrix = np.array(spec['box'])
    if spec['declare_count']:
        g.natoms = len(spec['records']) if upto is None else len(spec['records'])
    if spec['format'] == 'set':
        g.position_format = (spec['dec'] + 5, spec['dec'])
    recs = spec['records'] if upto is None else spec['records'][:upto]
    rows = [record_list(r, spec.get('as_tuple')) for r in recs]
    refusals = set(spec.get('refusals') or [])
    if refusals:
        real_g, has_vel = g, spec['with_vel']

        class _Offering:
            """The writer, with the caller's handled mistakes woven in (see 'refusals')."""
            def __init__(self):
                self.k = 0

            def _mistake(self):
                if self.k in refusals:
                    refusals.discard(self.k)
                    base = list(rows[self.k])
                    bad = base[:5] if self.k % 2 else (base[:7] if has_vel else base + [0.1, 0.2, 0.3])
                    try:
                        if self.k % 3 == 0:
                            real_g.writelines([bad])
                        else:
                            real_g.writeline(bad)
                    except Exception:  # noqa
                        pass

            def writeline(self, row):
                self._mistake()
                real_g.writeline(row)
                self.k += 1

            def writelines(self, batch):
                batch = list(batch)
                if batch:
                    self._mistake()
                real_g.writelines(batch)
                self.k += len(batch)

            def __getattr__(self, name):
                return getattr(real_g, name)
        g = _Offering()
    if spec.get('schedule'):
        # a sequence of writer calls: ('line',) one record with writeline, ('lines', k) k records with writelines
        k = 0
        for call in spec['schedule']:
            if k >= len(rows) and not (call[0] == 'lines' and call[1] == 0):
                break
            if call[0] == 'line':
                g.writeline(rows[k])
                k += 1
            else:
                g.writelines(rows[k:k + call[1]])
                k += call[1]
        for row in rows[k:]:
            g.writeline(row)
    elif spec.get('use_writelines'):
        g.writelines(rows)
    else:
        for row in rows:
            g.writeline(row)
    if refusals is not None and not isinstance(g, type(None)) and hasattr(g, '_mistake'):
        g = real_g
    if late:
        if spec['box'] is not None:
            g.box_matrix = np.array(spec['box'])
    if close:
        g.close()
    return g
