"""
Workload generators: bond graphs, geometries, in-memory molecules, and writers
for .gro / .itp files that do not use the library (so that a file is a ground
truth the library is compared against).
"""
import itertools
import os

import numpy as np


# ---------------------------------------------------------------------------
# graphs

def prufer_to_edges(seq, n):
    """Edges of the labelled tree on n vertices with Pruefer sequence seq."""
    if n == 1:
        return []
    if n == 2:
        return [(0, 1)]
    degree = [1] * n
    for v in seq:
        degree[v] += 1
    edges = []
    import heapq
    leaves = [v for v in range(n) if degree[v] == 1]
    heapq.heapify(leaves)
    for v in seq:
        leaf = heapq.heappop(leaves)
        edges.append((min(leaf, v), max(leaf, v)))
        degree[v] -= 1
        if degree[v] == 1:
            heapq.heappush(leaves, v)
    a = heapq.heappop(leaves)
    b = heapq.heappop(leaves)
    edges.append((min(a, b), max(a, b)))
    return edges


def all_labelled_trees(n):
    """Every labelled tree on n vertices (n**(n-2) of them)."""
    if n <= 2:
        yield prufer_to_edges((), n)
        return
    for seq in itertools.product(range(n), repeat=n - 2):
        yield prufer_to_edges(seq, n)


def random_tree(rng, n):
    if n <= 2:
        return prufer_to_edges((), n)
    return prufer_to_edges([int(x) for x in rng.integers(0, n, n - 2)], n)


def chain(n):
    return [(i, i + 1) for i in range(n - 1)]


def star(n):
    return [(0, i) for i in range(1, n)]


def ring(n):
    return chain(n) + ([(0, n - 1)] if n > 2 else [])


def complete(n):
    return [(i, j) for i in range(n) for j in range(i + 1, n)]


def add_random_edges(rng, n, edges, extra):
    have = set(edges)
    out = list(edges)
    tries = 0
    while extra > 0 and tries < 50 * (extra + 1) and len(have) < n * (n - 1) // 2:
        i, j = (int(x) for x in rng.integers(0, n, 2))
        tries += 1
        if i == j:
            continue
        e = (min(i, j), max(i, j))
        if e in have:
            continue
        have.add(e)
        out.append(e)
        extra -= 1
    return out


def random_connected_graph(rng, n, kind=None):
    """(kind, edges) with kind in tree/chain/star/ring/cyclic/complete."""
    kinds = ['tree', 'tree', 'chain', 'star', 'ring', 'cyclic', 'complete']
    if kind is None:
        kind = kinds[int(rng.integers(0, len(kinds)))]
    if kind == 'tree':
        e = random_tree(rng, n)
    elif kind == 'chain':
        e = chain(n)
    elif kind == 'star':
        e = star(n)
    elif kind == 'ring':
        e = ring(n)
    elif kind == 'complete':
        e = complete(min(n, 7)) + [(i - 1, i) for i in range(7, n)]
    else:
        e = add_random_edges(rng, n, random_tree(rng, n), int(rng.integers(1, max(2, n // 2 + 1))))
    perm = rng.permutation(n) if kind in ('chain', 'star', 'ring') and rng.random() < 0.5 else np.arange(n)
    e = [(int(min(perm[a], perm[b])), int(max(perm[a], perm[b]))) for a, b in e]
    return kind, sorted(set(e))


def random_forest(rng, n, parts):
    """Forest on n vertices with `parts` components (vertex sets interleaved)."""
    labels = rng.permutation(n)
    cuts = sorted(int(x) for x in rng.choice(np.arange(1, n), size=min(parts - 1, n - 1), replace=False)) if n > 1 and parts > 1 else []
    groups = np.split(labels, cuts)
    edges = []
    for g in groups:
        sub = random_tree(rng, len(g))
        edges += [(int(min(g[a], g[b])), int(max(g[a], g[b]))) for a, b in sub]
    return sorted(edges)


def adjacency(n, edges):
    adj = [set() for _ in range(n)]
    for a, b in edges:
        adj[a].add(b)
        adj[b].add(a)
    return adj


def is_tree(n, edges):
    return len(set(edges)) == n - 1 and len(components(n, edges)) == 1


def components(n, edges):
    parent = list(range(n))

    def find(x):
        while parent[x] != x:
            parent[x] = parent[parent[x]]
            x = parent[x]
        return x
    for a, b in edges:
        ra, rb = find(a), find(b)
        if ra != rb:
            parent[ra] = rb
    comps = {}
    for v in range(n):
        comps.setdefault(find(v), []).append(v)
    return list(comps.values())


# ---------------------------------------------------------------------------
# geometry

def random_rotation(rng, kind='generic'):
    """Proper rotation from a QR-orthonormalised Gaussian matrix (independent
    of the library's rotation_matrix)."""
    if kind == 'identity':
        return np.eye(3)
    q, r = np.linalg.qr(rng.normal(size=(3, 3)))
    q = q * np.sign(np.diag(r))
    if np.linalg.det(q) < 0:
        q[:, 0] = -q[:, 0]
    if kind == 'tiny':
        # rotation by a tiny angle about a random axis: blend through Rodrigues
        axis = q[:, 0]
        th = 10.0 ** rng.uniform(-8, -3)
        return rodrigues(axis, th)
    if kind == 'nearpi':
        axis = q[:, 0]
        return rodrigues(axis, np.pi - 10.0 ** rng.uniform(-8, -3))
    return q


def rodrigues(axis, theta):
    a = np.asarray(axis, float)
    a = a / np.linalg.norm(a)
    K = np.array([[0, -a[2], a[1]], [a[2], 0, -a[0]], [-a[1], a[0], 0]])
    return np.eye(3) + np.sin(theta) * K + (1 - np.cos(theta)) * (K @ K)


def min_pair_distance(pos):
    pos = np.asarray(pos)
    if len(pos) < 2:
        return np.inf
    d = np.linalg.norm(pos[:, None, :] - pos[None, :, :], axis=-1)
    d[np.diag_indices(len(pos))] = np.inf
    return d.min()


def random_positions(rng, n, scale=1.0, min_sep=0.02):
    """n pairwise distinct points (separated by > min_sep*scale)."""
    for _ in range(100):
        pos = rng.normal(size=(n, 3)) * scale * max(1.0, n ** (1 / 3)) * 0.3
        if min_pair_distance(pos) > min_sep * scale:
            return pos
    raise RuntimeError('could not place points')


def embed_graph(rng, n, edges, bond=(0.1, 0.5), min_sep=0.02):
    """Molecule-like embedding: BFS over the graph, every new atom at a random
    direction and a random bond length from its parent; components start at
    random places.  Points pairwise distinct."""
    adj = adjacency(n, edges)
    for _ in range(200):
        pos = np.full((n, 3), np.nan)
        for comp in components(n, edges):
            root = comp[0]
            pos[root] = rng.normal(size=3) * 0.5
            queue = [root]
            while queue:
                v = queue.pop(0)
                for w in sorted(adj[v]):
                    if np.isnan(pos[w, 0]):
                        d = rng.normal(size=3)
                        d /= np.linalg.norm(d)
                        pos[w] = pos[v] + d * rng.uniform(*bond)
                        queue.append(w)
        if min_pair_distance(pos) > min_sep:
            return pos
    raise RuntimeError('could not embed graph')


def sin_angle(p0, p1, p2):
    """sin of the angle at p0 between p1-p0 and p2-p0 (0 if degenerate)."""
    a, b = p1 - p0, p2 - p0
    na, nb = np.linalg.norm(a), np.linalg.norm(b)
    if na == 0 or nb == 0:
        return 0.0
    return float(np.linalg.norm(np.cross(a, b)) / (na * nb))


# ---------------------------------------------------------------------------
# in-memory molecules (the way MoleculeTop.copy builds them)

def make_top(name, names, resnames, resids, bonds):
    from gaddlemaps.components import MoleculeTop, AtomTop
    mt = MoleculeTop.__new__(MoleculeTop)
    mt.ftop = '<memory>'
    mt.name = name
    mt.atoms = [AtomTop(names[i], resnames[i], int(resids[i]), i) for i in range(len(names))]
    for a, b in bonds:
        mt.atoms[a].connect(mt.atoms[b])
    return mt


def make_residues(names, resnames, resids, pos, vel=None, atomids=None):
    from gaddlemaps.components import AtomGro, Residue
    residues, cur, key = [], [], None
    for i in range(len(names)):
        k = (int(resids[i]), resnames[i])
        rec = [int(resids[i]), resnames[i], names[i],
               int(atomids[i]) if atomids is not None else i + 1] + [float(x) for x in pos[i]]
        if vel is not None:
            rec += [float(x) for x in vel[i]]
        if key is not None and k != key:
            residues.append(Residue(cur))
            cur = []
        key = k
        cur.append(AtomGro(rec))
    residues.append(Residue(cur))
    return residues


def make_molecule(name, names, bonds, pos, resnames=None, resids=None, vel=None, atomids=None):
    from gaddlemaps.components import Molecule
    n = len(names)
    if resnames is None:
        resnames = [name[:5]] * n
    if resids is None:
        resids = [1] * n
    mt = make_top(name, names, resnames, resids, bonds)
    return Molecule(mt, make_residues(names, resnames, resids, pos, vel, atomids))


def atom_names(n, prefix='A', hydrogens=None):
    """Unique atom names; indices in `hydrogens` get hydrogen-style names."""
    hydrogens = set(hydrogens or ())
    out = []
    for i in range(n):
        if i in hydrogens:
            out.append(f'H{i}' if i < 9999 else f'H{i % 9999}')
        else:
            out.append(f'{prefix}{i}'[:5])
    return out


# ---------------------------------------------------------------------------
# file writers that do not use the library

def fmt_gro_record(resid, resname, name, atomid, xyz, vel=None, dec=3):
    w = dec + 5
    s = '%5d%-5s%5s%5d' % (resid % 100000, resname, name, atomid % 100000)
    s += ''.join('%*.*f' % (w, dec, x) for x in xyz)
    if vel is not None:
        s += ''.join('%*.*f' % (w, dec + 1, x) for x in vel)
    return s


def fmt_box(box):
    box = np.asarray(box, float)
    if box.shape == (3,):
        return ' '.join('%9.5f' % x for x in box)
    order = [(0, 0), (1, 1), (2, 2), (0, 1), (0, 2), (1, 0), (1, 2), (2, 0), (2, 1)]
    vals = [box[i, j] for i, j in order]
    if not any(vals[3:]):
        vals = vals[:3]
    return ' '.join('%9.5f' % x for x in vals)


def write_gro(path, title, records, box, dec=3):
    """records: list of (resid, resname, name, atomid, xyz[, vel])."""
    with open(path, 'w') as fh:
        fh.write(title + '\n')
        fh.write('%5d\n' % len(records))
        for r in records:
            vel = r[5] if len(r) > 5 else None
            fh.write(fmt_gro_record(r[0], r[1], r[2], r[3], r[4], vel, dec) + '\n')
        fh.write(fmt_box(box) + '\n')


def write_itp(path, molname, atoms, bond_sections, rng=None, decorate=False,
              header=None, extra_sections=None, nrexcl=1):
    """atoms: list of dict(nr, type, resid, resname, name, cgnr[, charge, mass]);
    bond_sections: ordered list of (section_name, [(nr_i, nr_j), ...]).
    With decorate=True comments, blank and preprocessor lines and ragged
    spacing are sprinkled in (rng required)."""
    def sp():
        if decorate and rng is not None:
            return [' ', '  ', '\t', '    ', ' \t '][int(rng.integers(0, 5))]
        return '  '

    def noise(fh):
        if not (decorate and rng is not None):
            return
        r = rng.random()
        if r < 0.15:
            fh.write('; a comment line\n')
        elif r < 0.25:
            fh.write('\n')
        elif r < 0.30:
            fh.write('#ifdef FLEXIBLE\n')
        elif r < 0.35:
            fh.write('#endif\n')
        elif r < 0.38:
            fh.write('#include "other.itp"\n')
        elif r < 0.42:
            fh.write(';\n')
        elif r < 0.45:
            fh.write('   \t \n')

    with open(path, 'w') as fh:
        if header:
            fh.write(header)
        fh.write('[ moleculetype ]\n')
        fh.write('; molname  nrexcl\n')
        noise(fh)
        fh.write(f'{sp()}{molname}{sp()}{nrexcl}\n')
        fh.write('\n')
        sections = [('atoms', None)] + list(bond_sections)
        if extra_sections:
            sections += list(extra_sections)
        for sec, content in sections:
            pad = ['[ %s ]', '[%s]', '[  %s  ]'][int(rng.integers(0, 3))] if (decorate and rng is not None) else '[ %s ]'
            fh.write(pad % sec + '\n')
            if sec == 'atoms':
                fh.write('; nr type resnr residue atom cgnr charge mass\n')
                for a in atoms:
                    noise(fh)
                    fields = [a['nr'], a['type'], a['resid'], a['resname'], a['name'], a['cgnr']]
                    if 'charge' in a:
                        fields.append('%.4f' % a['charge'])
                        if 'mass' in a:
                            fields.append('%.4f' % a['mass'])
                    line = sp().join(str(f) for f in fields)
                    if decorate and rng is not None and rng.random() < 0.2:
                        line += ' ; trailing comment'
                    fh.write(sp() + line + '\n')
            elif isinstance(content, str):
                fh.write(content)
            else:
                for (i, j) in content:
                    noise(fh)
                    line = f'{i}{sp()}{j}{sp()}1{sp()}0.30{sp()}1250'
                    if decorate and rng is not None and rng.random() < 0.2:
                        line += ' ; b'
                    fh.write(sp() + line + '\n')
            fh.write('\n')


def simple_itp_atoms(names, resnames, resids, numbers=None, with_charge=True, with_mass=False):
    atoms = []
    for i, nm in enumerate(names):
        a = {'nr': numbers[i] if numbers is not None else i + 1, 'type': 'T' + str(i % 7),
             'resid': int(resids[i]), 'resname': resnames[i], 'name': nm, 'cgnr': i + 1}
        if with_charge:
            a['charge'] = 0.0
            if with_mass:
                a['mass'] = 12.011
        atoms.append(a)
    return atoms
