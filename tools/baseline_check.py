#!/usr/bin/env python3
"""Runs the repository's own test-suite (guard off) and compares the set of
passing tests with the stable baseline in /root/.vp/BASELINE.json."""
import json
import os
import subprocess
import sys
import tempfile
import xml.etree.ElementTree as ET

base = json.load(open('/root/.vp/BASELINE.json'))
want = set(base['stable_pass'])
repo = os.environ.get('VERIF_REPO', '/repo')
with tempfile.TemporaryDirectory() as d:
    out = os.path.join(d, 'r.xml')
    env = {k: v for k, v in os.environ.items() if k != 'GADDLEMAPS_VERIF'}
    env['PYTHONPATH'] = repo
    subprocess.run(['/venv/bin/python', '-m', 'pytest', '-q', '-p', 'no:cacheprovider', '--timeout=900',
                    '--continue-on-collection-errors', f'--junitxml={out}'] + sys.argv[1:], cwd=repo, env=env,
                   stdout=subprocess.DEVNULL, stderr=subprocess.DEVNULL)
    passed = set()
    for tc in ET.parse(out).getroot().iter('testcase'):
        if not any(ch.tag in ('failure', 'error', 'skipped') for ch in tc):
            passed.add(f"{tc.get('classname')}::{tc.get('name')}")
missing = sorted(want - passed)
print(f'baseline stable_pass={len(want)} passing now={len(passed & want)} extra passing={len(passed - want)}')
for m in missing:
    print('  NO LONGER PASSING:', m)
for m in sorted(passed - want):
    print('  newly passing:', m)
sys.exit(1 if missing else 0)
