#!/bin/bash
# Thorough tier of every check (or of the listed ones: PROPS="C01 C02") over the given seeds; prints what is not "held".
cd "$(dirname "$0")/.."
PROPS=${PROPS:-C01 C02 C03 C04 C05 C06 C07 C08 C09 C10 C11 C12 C13 C14 C15 C16 C17 C18 C19 C20}
for s in "$@"; do
  for p in $PROPS; do
    t0=$(date +%s)
    out=$(VERIF_SEED=$s ./check $p thorough --no-evidence 2>&1)
    rc=$?
    echo "seed=$s $p rc=$rc secs=$(( $(date +%s) - t0 ))"
    if [ $rc -ne 0 ]; then echo "$out" | grep -E "VIOLATION|INCONCLUSIVE" | cut -c1-400; fi
  done
  echo "seed $s done"
done
