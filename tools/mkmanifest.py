#!/usr/bin/env python3
"""Writes MANIFEST.json from the table below (kept here so the manifest stays
consistent while checks are added)."""
import json
import os

HERE = os.path.dirname(os.path.dirname(os.path.abspath(__file__)))

TRUST = ('Trusted base: CPython 3.12, numpy/scipy, the loop-based reference models in gmv/ref.py and the '
         'generators in gmv/gen.py. Passing means "held on the executions described in the evidence file", not a proof. '
         'Every run also repeats a sample of its cases in an interpreter without assert statements (PYTHONOPTIMIZE=1) and runs '
         'half of its cases with a terminal-like stdout (DESIGN.md section 2.7).')

CHECKS = {
    'C01': ('exploration', 'reference-model contract (anchor-and-scale law) on ExchangeMap.__call__',
            'Every generated (reference, target, scale) triple is mapped by the real ExchangeMap and every target atom is compared with a + s(p - a) computed from the bond graph and coordinates by an independent model; collinear / axis-aligned anchors are generated on purpose; maps are also applied to other configurations and then to the construction object again. Sampling, not proof: the space of molecules and geometries is continuous.', '4 C01'),
    'C02': ('exploration', 'differential runs of one map object on rigidly moved copies (QR rotations independent of the library)',
            'Same map object applied to a reference and to rigidly moved copies; generic anchors must commute to 1e-8, axis-free anchors (collinear, 2-atom, 1-atom references) must keep the cylindrical invariants; motions include exact half turns, bond-reversing turns, and configurations that differ from the previous call by 1e-7..1e-3; near-collinear anchors (sin 1e-6..1e-3) are judged where the per-atom floating-point floor allows. SO(3) and translations are sampled.', '4 C02'),
    'C03': ('exploration', 'contract on every map call (distance-to-anchor = s x construction distance) + one-atom-at-a-time perturbation differential',
            'Shape preservation is checked as a post-condition on every call on deformed conformations; locality by displacing each reference atom in turn and comparing the atoms whose anchor frame does not contain it (1e-12); the construction conformation itself and one-ulp changes of it are included, and molecules returned earlier are re-read after later calls.', '4 C03'),
    'C04': ('exploration', 'history monitor with shadow state against fresh maps built from pristine deep copies',
            'Random call histories (calls, rejected arguments, mutation of construction molecules / results / arguments) on one map; after every operation all retained results, arguments and construction molecules are compared with shadows and with a freshly built map; arguments are numbered like the construction molecule or non-consecutively, construction molecules are renumbered, references with exactly collinear anchors are moved by rigid motions that are exact in floating point.', '4 C04'),
    'C05': ('exploration', 'conservation / exactly-once monitor over generator truth, the event log of map calls and writer calls, and the output file parsed independently',
            'Generated multi-species systems (interleaved, unmapped species, solvent, triclinic boxes) are extrapolated by the real Manager; the output is read by an independent fixed-column reader and matched molecule by molecule with the i-th eligible input instance and the i-th map call; residue numbers with gaps and restarts, and outputs of 99999..200003 atoms, are included.', '4 C05'),
    'C06': ('exploration', 'post-condition on Alignment.align_molecules (snapshots of start/end/caller objects) + bit-exact repeated runs',
            'Alignments over random tree / cyclic / shipped molecules, both size orders and ties, restraint lists, deformation subsets, hydrogen settings and seeds; the larger molecule must be a pure translate, tree bonds must be preserved to 1e-9, repeated runs must be bit-identical, in the same process and in fresh interpreters under other PYTHONHASHSEED values; one Alignment object is also used for several alignments in a row.', '4 C06'),
    'C07': ('exploration', 'contracts on move_mol_atom / find_atom_random_displ; all labelled trees up to 7 vertices x every moved atom enumerated',
            'The finite sub-space (all labelled trees on <= 7 vertices, every moved atom) is enumerated completely in the thorough tier (quick: <= 6 plus a sample of 7); coordinates, displacements, bond tables and larger graphs are sampled; the same contracts run on every move made inside Monte-Carlo runs and on call sequences that re-use one bond table / coordinate array edited in place.', '4 C07'),
    'C08': ('exploration', 'reference-model monitor (naive chi2) beside every Chi2Calculator call, plus rigid-motion and relabelling metamorphic runs',
            'Each evaluation of the real calculator on configurations different from its construction one is compared with a loop-based definition; all three internal paths must be observed (line coverage) or the run is inconclusive; evaluations re-use one array object, strided / Fortran arrays, and coordinate sets 1e2..1e4 nm from the origin (tolerance includes the float floor of the definition).', '4 C08'),
    'C09': ('exploration', 'offline trace checker of the Monte-Carlo loop against a sequential specification (events from wrapped module-level names)',
            'Every chi2 evaluation, acceptance decision (with the uniform draw observed), move and the returned array of real runs are recorded and replayed against a 30-line specification: held energy, Metropolis rule, proposal type and geometry, last-accepted return, exact stop; runs in length units 1e-5..1e3, ring molecules, and molecules whose single-atom moves have no finite measure (such proposals may only be refused).', '4 C09'),
    'C10': ('exploration', 'boundary recorder on the optimiser entry point (atoms identified by unique coordinates) + post-conditions on the guessers (40x40 exhaustive) + routing log of Manager',
            'What reaches minimize_molecules is translated back to atoms by coordinates and compared with the user pairs; the per-residue splitter is enumerated over all 1..40 x 1..40 sizes; manager options (also pre-parsed, in the key order of the caller, handed over twice) are routed on generated multi-species systems; repeated alignments re-use one restraint list object.', '4 C10'),
    'C11': ('exploration', 'reference = generator ground truth; all sequences <= 6 over 5 species x all load orders enumerated (thorough)',
            'System() on generated files; every returned molecule is identified through its unique coordinates with the file lines it came from. The finite sub-space is enumerated completely in the thorough tier, longer systems are sampled; a second species family (residue layouts that merge across molecule boundaries), refused topologies between good loads, and interleaved iterations / indexing are included.', '4 C11'),
    'C12': ('exploration', 'history monitor: one SystemGro object vs a reference list built by an independent reader, random access histories',
            'Random files and random access sequences (index, negative index, slices, interleaved live iterators); every result compared at once with the reference list; half of the histories run on objects never walked to the end; atoms at rest included.', '4 C12'),
    'C13': ('exploration', 'differential: generator truth vs independent fixed-column reader vs GroFile re-read; line-length invariant on writeline',
            'Random record lists, names, numbers around the five-digit limit, rounding-boundary coordinates, velocities, boxes, formats, declared / back-filled counts, multi-byte titles, atoms at rest and slow negative velocities are written by the real writer and read back twice.', '4 C13'),
    'C14': ('fault_enumeration', 'crash-point enumeration: sys.monitoring failpoints at every writer statement with on-disk snapshots under three buffering models; every byte-prefix of complete files',
            'Every statement boundary of the writer functions is a crash point whose surviving bytes are captured through a second descriptor; every distinct image and every byte-level truncation of shipped and generated files is fed to the reader. Exhaustive for the files and writer runs listed in the evidence; files of 99999..200004 records are swept in windows plus a random sample (stated in the evidence).', '4 C14'),
    'C15': ('exploration', 'generator truth + union-find reference for connectivity',
            'Generated topologies (renumbered atoms with gaps, bonds split over sections, decorations, chains of thousands of atoms) are read by the real reader and compared with the generator truth; include targets that exist, header-like comments, copies of topologies modified after loading.', '4 C15'),
    'C16': ('exploration', 'independent tokeniser on original and written file + library re-parse + second round trip',
            'All shipped topologies and generated hostile files are read, written and re-read; the tokens of every section are compared by an independent tokeniser; header-like comments and directives with trailing comments are part of the noise.', '4 C16'),
    'C17': ('exploration', 'contracts on rotation_matrix / calcule_base at every call-time name + metamorphic relations',
            'Directed sweep over axis/angle and point-triple classes (all collinear classes) (axes of unit / almost-unit length included) and embedded real workloads whose internal calls go through the same contracts.', '4 C17'),
    'C18': ('exploration', 'history monitor with shadow state over copies, views and rigid operations',
            'Random operation histories over live objects (atoms, residues, molecules, copies, deep copies, molecules from a System / an Alignment); after each operation every object is compared with its shadow; integer / strided coordinate arrays and molecules re-assigned to a complete Alignment are included.', '4 C18'),
    'C19': ('exploration', 'reference-model contract (per-axis image scan) on Residue.distance_to + metamorphic relations',
            'Random residues/points and boxes; orthorhombic values compared with a brute-force minimum image, general boxes through symmetry, lattice-shift invariance and inverse-flag agreement; sessions re-use one box / inverse-box array edited in place (bit-exact agreement with pristine copies); points on lattice points within rounding noise.', '4 C19'),
    'C20': ('exploration', 'differential runs: CLI main() vs library workflow (same seed), discovery under permuted candidate lists and several PYTHONHASHSEED values (subprocesses)',
            'Generated multi-species directories with distractors and the shipped BMIM/BF4 files; outputs compared byte for byte, discovery compared with generator truth across orderings and hash seeds (sampled); the same command line is re-run in fresh interpreters under other hash seeds; explicit and listed files spelled differently; end topologies named differently.', '4 C20'),
}

BUILT = [l.strip() for l in open(os.path.join(HERE, 'tools', 'built.txt')) if l.strip()]

NOT_YET = 'check not built yet in this round (see DESIGN.md section 4 for its design)'


def main():
    checks = []
    for pid in sorted(CHECKS):
        if pid not in BUILT:
            continue
        level, technique, text, ref = CHECKS[pid]
        checks.append({
            'property_id': pid,
            'quick_cmd': f'./check {pid} quick',
            'thorough_cmd': f'./check {pid} thorough',
            'evidence_file': f'/verif/evidence/{pid}.json',
            'replay_cmd_template': f'./check {pid} --replay {{path}}',
            'engine': 'gmv',
            'level_claimed': {'category': level, 'text': text, 'design_ref': f'DESIGN.md section {ref}'},
            'level_note': TRUST,
            'technique': 'runtime monitoring: ' + technique,
        })
    manifest = {
        'version': 1,
        'setup_cmd': 'true',
        'hooks': {
            'guard': 'GADDLEMAPS_VERIF',
            'enable': 'no source hooks exist: every observation point is reached by replacing module/class attributes from the harness; ./check exports GADDLEMAPS_VERIF=1 for completeness',
            'baseline_off_cmd': 'cd /repo && /venv/bin/python -m pytest -ra -q -p no:cacheprovider --timeout=900 --continue-on-collection-errors',
            'source_commits': [],
            'add_only': True,
        },
        'engines': [{'name': 'gmv', 'path': '/verif/gmv', 'serves_properties': BUILT,
                     'kind_free_text': 'runtime-monitoring harness: contracts, reference models, history monitors, crash-point injector, differential runs; pure Python, runs with /venv/bin/python against /repo working tree'}],
        'checks': checks,
        'not_applicable': [{'property_id': pid, 'reason': NOT_YET} for pid in sorted(CHECKS) if pid not in BUILT],
        'notes': 'Exit codes of ./check: 0 held on everything explored, 1 violation (VIOLATION line), 2 inconclusive (INCONCLUSIVE line; a deciding monitor or a required input class was never reached, or a shard died). VERIF_SEED selects the workload seed; VERIF_REPO (default /repo) the tree under test.',
    }
    with open(os.path.join(HERE, 'MANIFEST.json'), 'w') as fh:
        json.dump(manifest, fh, indent=1)
    print('MANIFEST.json written with', len(checks), 'checks')


if __name__ == '__main__':
    main()
