#!/usr/bin/env python3
"""Regenerates the two tables of DESIGN.md section 9 (hand-written mutants, independent seeded changes) in place,
between the header row of each table and the next blank line.  The prose is written by hand."""
import io
import os
import re
import sys
from contextlib import redirect_stdout

HERE = os.path.dirname(os.path.dirname(os.path.abspath(__file__)))
sys.path.insert(0, os.path.join(HERE, 'tools'))
import mktables  # noqa


def table(fn, *a):
    buf = io.StringIO()
    with redirect_stdout(buf):
        fn(*a)
    return buf.getvalue().strip('\n')


def replace_table(text, header_start, new):
    i = text.index(header_start)
    j = text.index('\n\n', i)
    return text[:i] + new + text[j:]


p = os.path.join(HERE, 'DESIGN.md')
s = open(p).read()
s = replace_table(s, '| mutant | file(s) | outcome |', table(mktables.mutants_table, os.path.join(HERE, 'tools', 'mutants_last_run.log')))
s = replace_table(s, '| id | property | what the change does', table(mktables.seeded_table))
open(p, 'w').write(s)
print('tables regenerated')
