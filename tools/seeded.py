#!/usr/bin/env python3
"""
Confirms and files a breaking change proposed by an independent sub-agent.

  tools/seeded.py import <src_dir> <id> <property> [--checks C01,C03]
      copies seed_patch.diff/demo.py/meta.json from <src_dir> to seeded/<id>/ and runs `verify`.
  tools/seeded.py verify <id> [--checks ...] [--tier quick]
      on a scratch copy of /repo (outside /repo and /verif): demo without the patch (must pass),
      with the patch (must fail), the repository's 74 baseline tests with the patch (must stay
      green), then the registered quick check(s) with VERIF_REPO=<scratch> (caught = exit 1).
      The outcome is written into seeded/<id>/meta.json under "confirmation".
  tools/seeded.py all [--tier quick]     re-verify every seeded change (checks only, skips tests).
"""
import argparse
import json
import os
import shutil
import subprocess
import sys
import tempfile

HERE = os.path.dirname(os.path.dirname(os.path.abspath(__file__)))
SCRATCH = '/root/mut'
PY = '/venv/bin/python'


def sh(cmd, **kw):
    return subprocess.run(cmd, capture_output=True, text=True, **kw)


def scratch_copy():
    os.makedirs(SCRATCH, exist_ok=True)
    d = tempfile.mkdtemp(prefix='seed_', dir=SCRATCH)
    subprocess.run(['rsync', '-a', '--exclude', '.git', '--exclude', 'docs', '--exclude', 'examples',
                    '--exclude', '__pycache__', '/repo/', d + '/'], check=True)
    return d


def run_demo(d, demo):
    env = dict(os.environ, PYTHONPATH=d, PYTHONDONTWRITEBYTECODE='1')
    try:
        r = sh([PY, '-W', 'ignore', demo], env=env, cwd=d, timeout=1800)
        return r.returncode, (r.stdout + r.stderr)[-400:]
    except subprocess.TimeoutExpired:
        return -9, 'timeout'


def verify(sid, checks=None, tier='quick', tests=True, write=True):
    sdir = os.path.join(HERE, 'seeded', sid)
    meta_path = os.path.join(sdir, 'meta.json')
    meta = json.load(open(meta_path))
    prop = meta.get('property')
    checks = checks or meta.get('confirmation', {}).get('checks_run') or [prop]
    d = scratch_copy()
    conf = {'checks_run': checks, 'tier': tier}
    try:
        demo = os.path.join(d, '_seed_demo.py')
        src = open(os.path.join(sdir, 'demo.py')).read()
        # demos were written inside the agent's worktree: point them at the scratch copy
        for old in meta.get('worktree_paths', []) + [f'/tmp/wt/{prop}']:
            src = src.replace(old, d)
        open(demo, 'w').write(src)
        rc0, out0 = run_demo(d, demo)
        conf['demo_without_patch'] = {'rc': rc0, 'tail': out0[-200:]}
        r = sh(['patch', '-p1', '-i', os.path.join(sdir, 'patch.diff')], cwd=d)
        conf['patch_applies'] = r.returncode == 0
        if r.returncode != 0:
            conf['patch_output'] = (r.stdout + r.stderr)[-300:]
        rc1, out1 = run_demo(d, demo)
        conf['demo_with_patch'] = {'rc': rc1, 'tail': out1[-200:]}
        os.remove(demo)
        if tests:
            r = sh([sys.executable, os.path.join(HERE, 'tools', 'baseline_check.py')], env=dict(os.environ, VERIF_REPO=d))
            conf['baseline_tests_with_patch'] = r.stdout.strip().splitlines()[0] if r.stdout.strip() else 'no output'
            conf['baseline_green'] = r.returncode == 0
        res = {}
        for c in checks:
            try:
                r = sh([os.path.join(HERE, 'check'), c, tier, '--no-evidence'], env=dict(os.environ, VERIF_REPO=d), cwd=HERE, timeout=7200)
                mechs = sorted({l.split('mechanism=')[1].split()[0] for l in r.stdout.splitlines() if l.startswith('VIOLATION') and 'mechanism=' in l})
                res[c] = {'rc': r.returncode, 'mechanisms': mechs[:8]}
            except subprocess.TimeoutExpired:
                res[c] = {'rc': -9, 'mechanisms': ['TIMEOUT']}
        conf['checks'] = res
        conf['caught'] = any(v['rc'] == 1 for v in res.values())
        conf['valid_seed'] = bool(rc0 == 0 and rc1 != 0 and conf['patch_applies'] and conf.get('baseline_green', True))
    finally:
        shutil.rmtree(d, ignore_errors=True)
    old = meta.get('confirmation', {})
    if not tests:
        for k in ('baseline_tests_with_patch', 'baseline_green'):
            if k in old:
                conf[k] = old[k]
    if write:
        meta['confirmation'] = conf
        json.dump(meta, open(meta_path, 'w'), indent=1)
    print(f"{sid:28s} valid={conf['valid_seed']} caught={conf['caught']} demo {rc0}->{rc1} "
          f"tests={conf.get('baseline_tests_with_patch', 'skipped')} checks={ {k: (v['rc'], v['mechanisms'][:3]) for k, v in res.items()} }")
    return conf


def main():
    ap = argparse.ArgumentParser()
    ap.add_argument('cmd', choices=['import', 'verify', 'all'])
    ap.add_argument('args', nargs='*')
    ap.add_argument('--checks')
    ap.add_argument('--tier', default='quick')
    ap.add_argument('--no-tests', action='store_true')
    ap.add_argument('--no-write', action='store_true')
    a = ap.parse_args()
    checks = a.checks.split(',') if a.checks else None
    if a.cmd == 'import':
        src, sid, prop = a.args
        sdir = os.path.join(HERE, 'seeded', sid)
        os.makedirs(sdir, exist_ok=True)
        pf = os.path.join(src, 'seed_patch.diff')
        if not os.path.exists(pf):
            pf = os.path.join(src, 'patch.diff')
        shutil.copy(pf, os.path.join(sdir, 'patch.diff'))
        shutil.copy(os.path.join(src, 'demo.py'), os.path.join(sdir, 'demo.py'))
        try:
            meta = json.load(open(os.path.join(src, 'meta.json')))
        except Exception:  # noqa
            meta = {}
        meta['property'] = prop
        meta['origin'] = 'independent sub-agent given only the property text and a scratch worktree'
        wt = os.path.abspath(src)
        if os.path.basename(wt) == '_seed':
            wt = os.path.dirname(wt)
        meta['worktree_paths'] = [wt]
        json.dump(meta, open(os.path.join(sdir, 'meta.json'), 'w'), indent=1)
        verify(sid, checks, a.tier, tests=not a.no_tests)
    elif a.cmd == 'verify':
        verify(a.args[0], checks, a.tier, tests=not a.no_tests)
    else:
        for sid in sorted(os.listdir(os.path.join(HERE, 'seeded'))):
            if os.path.exists(os.path.join(HERE, 'seeded', sid, 'meta.json')):
                verify(sid, checks, a.tier, tests=False, write=not a.no_write)


if __name__ == '__main__':
    main()
