#!/usr/bin/env python3
"""
Each `fix:` commit of /repo is reverted, alone, on a scratch copy (outside /repo
and /verif); the quick checks of the properties it repaired must then report a
violation again (a `fixed` known-finding entry suppresses nothing).
"""
import os
import shutil
import subprocess
import sys
import tempfile

HERE = os.path.dirname(os.path.dirname(os.path.abspath(__file__)))
SCRATCH = '/root/mut'

# subject keyword -> properties whose check must fire when the fix is reverted
MAP = [
    ('calcule_base', ['C17', 'C01', 'C02']),
    ('distance_to', ['C19']),
    ('position_format', ['C13']),
    ('99999', ['C13']),
    ('ItpFile keeps', ['C15', 'C16']),
    ('moleculetype', ['C15']),
    ('are_connected', ['C15']),
    ('ItpLine.line', ['C16']),
    ('SystemGro splits', ['C12']),
    ('two-atom', ['C02']),
    ('discovery skips', ['C20']),
]


def main():
    log = subprocess.check_output(['git', '-C', '/repo', 'log', '--format=%h %s', '--grep=^fix:']).decode().splitlines()
    os.makedirs(SCRATCH, exist_ok=True)
    for line in log:
        h, subject = line.split(' ', 1)
        props = next((p for k, p in MAP if k in subject), None)
        if props is None:
            print(f'?? no mapping for {line}')
            continue
        d = tempfile.mkdtemp(prefix='revert_', dir=SCRATCH)
        try:
            subprocess.run(['rsync', '-a', '--exclude', '.git', '--exclude', 'docs', '--exclude', 'examples', '--exclude', '__pycache__', '/repo/', d + '/'], check=True)
            patch = subprocess.check_output(['git', '-C', '/repo', 'show', h, '--', 'gaddlemaps'])
            r = subprocess.run(['patch', '-R', '-p1'], input=patch, cwd=d, capture_output=True)
            if r.returncode != 0:
                print(f'{h} revert does not apply: {r.stdout.decode()[-200:]}')
                continue
            out = []
            for p in props:
                rr = subprocess.run([os.path.join(HERE, 'check'), p, 'quick', '--no-evidence'], env=dict(os.environ, VERIF_REPO=d), cwd=HERE, capture_output=True, text=True)
                mechs = sorted({l.split('mechanism=')[1].split()[0] for l in rr.stdout.splitlines() if l.startswith('VIOLATION')})
                out.append(f'{p}: rc={rr.returncode} {",".join(mechs[:3])}')
            verdict = 'REFOUND' if any('rc=1' in o for o in out) else 'NOT-REFOUND'
            print(f'{verdict:12s} {h} {subject[:60]:60s} | ' + ' | '.join(out))
            sys.stdout.flush()
        finally:
            shutil.rmtree(d, ignore_errors=True)


if __name__ == '__main__':
    main()
