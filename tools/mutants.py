#!/usr/bin/env python3
"""
Sensitivity harness: applies hand-written breaking edits (tools/mutants.json) one
at a time to a scratch copy of the repository (outside /repo and /verif), runs
the quick check(s) of the property they break against the copy
(VERIF_REPO=<copy>) and reports which were caught.  With --baseline also runs
the repository's 74 baseline tests on the copy (a mutant only counts when they
stay green).  Scratch copies are removed afterwards.

usage: tools/mutants.py [--only NAME[,NAME]] [--prop C07] [--baseline] [--jobs N]
"""
import argparse
import concurrent.futures as cf
import json
import os
import shutil
import subprocess
import sys
import tempfile

HERE = os.path.dirname(os.path.dirname(os.path.abspath(__file__)))
SCRATCH = '/root/mut'


def run_one(m, baseline):
    os.makedirs(SCRATCH, exist_ok=True)
    d = tempfile.mkdtemp(prefix=m['name'] + '_', dir=SCRATCH)
    try:
        subprocess.run(['rsync', '-a', '--exclude', '.git', '--exclude', 'docs', '--exclude', 'examples',
                        '--exclude', '__pycache__', '/repo/', d + '/'], check=True)
        for edit in m['edits']:
            p = os.path.join(d, edit['file'])
            s = open(p).read()
            if s.count(edit['old']) < 1:
                return m['name'], 'EDIT-DOES-NOT-APPLY', ''
            s = s.replace(edit['old'], edit['new'], edit.get('count', 1))
            open(p, 'w').write(s)
        res = {}
        for prop in m['props']:
            env = dict(os.environ, VERIF_REPO=d)
            try:
                r = subprocess.run([os.path.join(HERE, 'check'), prop, 'quick', '--no-evidence'], env=env, cwd=HERE,
                                   capture_output=True, text=True, timeout=600)
            except subprocess.TimeoutExpired:
                res[prop] = (-9, ['TIMEOUT'])
                continue
            mechs = sorted({l.split('mechanism=')[1].split()[0] for l in r.stdout.splitlines() if l.startswith('VIOLATION') and 'mechanism=' in l})
            res[prop] = (r.returncode, mechs)
        base = ''
        if baseline:
            r = subprocess.run([sys.executable, os.path.join(HERE, 'tools', 'baseline_check.py')],
                               env=dict(os.environ, VERIF_REPO=d), capture_output=True, text=True)
            base = 'tests-green' if r.returncode == 0 else 'TESTS-BROKEN: ' + ' | '.join(l.strip() for l in r.stdout.splitlines()[1:4])
        caught = any(rc == 1 for rc, _ in res.values())
        detail = '; '.join(f'{p}: rc={rc} {",".join(me[:4])}' for p, (rc, me) in res.items())
        return m['name'], 'CAUGHT' if caught else 'MISSED', detail + (' ' + base if base else '')
    finally:
        shutil.rmtree(d, ignore_errors=True)


def main():
    ap = argparse.ArgumentParser()
    ap.add_argument('--only')
    ap.add_argument('--prop')
    ap.add_argument('--baseline', action='store_true')
    ap.add_argument('--jobs', type=int, default=4)
    args = ap.parse_args()
    muts = json.load(open(os.path.join(HERE, 'tools', 'mutants.json')))
    if args.only:
        names = set(args.only.split(','))
        muts = [m for m in muts if m['name'] in names]
    if args.prop:
        muts = [m for m in muts if args.prop in m['props']]
    with cf.ThreadPoolExecutor(args.jobs) as ex:
        for name, verdict, detail in ex.map(lambda m: run_one(m, args.baseline), muts):
            print(f'{verdict:8s} {name:45s} {detail}')
            sys.stdout.flush()


if __name__ == '__main__':
    main()
