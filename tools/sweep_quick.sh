#!/bin/bash
# Quick tier of every check over several seeds; prints everything that is not "held".
cd "$(dirname "$0")/.."
for s in "$@"; do
  for p in C01 C02 C03 C04 C05 C06 C07 C08 C09 C10 C11 C12 C13 C14 C15 C16 C17 C18 C19 C20; do
    out=$(VERIF_SEED=$s ./check $p quick --no-evidence 2>&1)
    rc=$?
    if [ $rc -ne 0 ]; then echo "seed=$s $p rc=$rc"; echo "$out" | grep -E "VIOLATION|INCONCLUSIVE" | cut -c1-300; fi
  done
  echo "seed $s done"
done
