#!/usr/bin/env python3
"""Prints the markdown tables of DESIGN.md section 9 from tools/mutants.json + a
log of tools/mutants.py, and from seeded/*/meta.json."""
import json
import os
import sys

HERE = os.path.dirname(os.path.dirname(os.path.abspath(__file__)))


def mutants_table(logpath):
    verdict = {}
    if logpath and os.path.exists(logpath):
        for line in open(logpath):
            parts = line.split(None, 2)
            if len(parts) >= 2 and parts[0] in ('CAUGHT', 'MISSED', 'EDIT-DOES-NOT-APPLY'):
                verdict[parts[1]] = (parts[0], parts[2].strip() if len(parts) > 2 else '')
    muts = json.load(open(os.path.join(HERE, 'tools', 'mutants.json')))
    print('| mutant | file(s) | outcome | mechanisms reported |')
    print('|---|---|---|---|')
    for m in muts:
        v, detail = verdict.get(m['name'], ('not run', ''))
        files = ', '.join(sorted({e['file'].replace('gaddlemaps/', '') for e in m['edits']}))
        mech = detail.replace('|', '/')
        if len(mech) > 150:
            mech = mech[:150] + '…'
        print(f"| `{m['name']}` | {files} | {v.lower()} | {mech} |")


def seeded_table():
    d = os.path.join(HERE, 'seeded')
    print('| id | property | what the change does / what it needs | valid seed | caught by (quick) | mechanisms |')
    print('|---|---|---|---|---|---|')
    for sid in sorted(os.listdir(d)):
        mp = os.path.join(d, sid, 'meta.json')
        if not os.path.exists(mp):
            continue
        m = json.load(open(mp))
        c = m.get('confirmation', {})
        summ = (m.get('summary') or '')
        need = (m.get('needs_to_manifest') or '')
        text = (summ[:170] + ('…' if len(summ) > 170 else '')) + ' **Needs:** ' + (need[:170] + ('…' if len(need) > 170 else ''))
        text = text.replace('|', '/').replace('\n', ' ')
        checks = c.get('checks', {})
        caught = ', '.join(k for k, v in checks.items() if v['rc'] == 1) or 'MISSED'
        if m.get('first_outcome') == 'not-covered':
            caught = 'not covered: outside the statement'
        elif m.get('first_outcome'):
            caught += ' (after strengthening)'
        mechs = '; '.join(','.join(v['mechanisms'][:2]) for v in checks.values())
        print(f"| {sid} | {m.get('property')} | {text} | {'yes' if c.get('valid_seed') else 'NO'} | {caught} | {mechs[:120]} |")


if __name__ == '__main__':
    if sys.argv[1] == 'mutants':
        mutants_table(sys.argv[2] if len(sys.argv) > 2 else None)
    else:
        seeded_table()
